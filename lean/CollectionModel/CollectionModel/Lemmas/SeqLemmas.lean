/- helper lemmas: the loops of list.go equal their take/drop descriptions -/
import CollectionModel.Spec.SeqSpec
namespace CM
namespace Seq
open SeqSpec

variable {α : Type}

theorem toZeroBased_some (n : Nat) (i : Int) (p : Nat) (h : pos n i = some p) :
    toZeroBased n i = .ok p := by
  unfold pos at h
  unfold toZeroBased
  by_cases h1 : 1 ≤ i ∧ i ≤ (n : Int)
  · simp [h1] at h
    have a : ¬ n = 0 := by omega
    have b : ¬ i = 0 := by omega
    have c : ¬ (i < -(n : Int) ∨ i > (n : Int)) := by omega
    have d : ¬ i < 0 := by omega
    simp only [a, b, c, d, if_false]
    congr 1; omega
  · by_cases h2 : -(n : Int) ≤ i ∧ i ≤ -1
    · simp [h1, h2] at h
      have a : ¬ n = 0 := by omega
      have b : ¬ i = 0 := by omega
      have c : ¬ (i < -(n : Int) ∨ i > (n : Int)) := by omega
      have d : i < 0 := by omega
      simp only [a, b, c, d, if_false, if_true]
      congr 1; omega
    · simp [h1, h2] at h

theorem toZeroBased_none (n : Nat) (i : Int) (h : pos n i = none) :
    ∃ c, toZeroBased n i = .error c := by
  unfold pos at h
  unfold toZeroBased
  by_cases h1 : 1 ≤ i ∧ i ≤ (n : Int)
  · simp [h1] at h
  · by_cases h2 : -(n : Int) ≤ i ∧ i ≤ -1
    · simp [h1, h2] at h
    · by_cases a : n = 0
      · exact ⟨.emptyIndex, by simp [a]⟩
      · by_cases b : i = 0
        · exact ⟨.zeroIndex, by simp [a, b]⟩
        · have c : (i < -(n : Int) ∨ i > (n : Int)) := by omega
          exact ⟨.outOfRange, by simp only [a, b, c, if_false, if_true]⟩

theorem pos_lt (n : Nat) (i : Int) (p : Nat) (h : pos n i = some p) : p < n := by
  unfold pos at h
  split at h
  · simp at h; omega
  · split at h
    · simp at h; omega
    · simp at h

theorem toNormalized_some (n : Nat) (i : Int) (p : Nat) (h : pos n i = some p) :
    toNormalized n i = .ok ((p : Int) + 1) := by
  unfold pos at h
  unfold toNormalized
  by_cases h1 : 1 ≤ i ∧ i ≤ (n : Int)
  · simp [h1] at h
    have a : ¬ n = 0 := by omega
    have b : ¬ i = 0 := by omega
    have c : ¬ (i < -(n : Int) ∨ i > (n : Int)) := by omega
    have d : ¬ i < 0 := by omega
    simp only [a, b, c, d, if_false]
    congr 1; omega
  · by_cases h2 : -(n : Int) ≤ i ∧ i ≤ -1
    · simp [h1, h2] at h
      have a : ¬ n = 0 := by omega
      have b : ¬ i = 0 := by omega
      have c : ¬ (i < -(n : Int) ∨ i > (n : Int)) := by omega
      have d : i < 0 := by omega
      simp only [a, b, c, d, if_false, if_true]
      congr 1; omega
    · simp [h1, h2] at h

theorem toNormalized_none (n : Nat) (i : Int) (h : pos n i = none) :
    ∃ c, toNormalized n i = .error c := by
  unfold pos at h
  unfold toNormalized
  by_cases h1 : 1 ≤ i ∧ i ≤ (n : Int)
  · simp [h1] at h
  · by_cases h2 : -(n : Int) ≤ i ∧ i ≤ -1
    · simp [h1, h2] at h
    · by_cases a : n = 0
      · exact ⟨.emptyIndex, by simp [a]⟩
      · by_cases b : i = 0
        · exact ⟨.zeroIndex, by simp [a, b]⟩
        · have c : (i < -(n : Int) ∨ i > (n : Int)) := by omega
          exact ⟨.outOfRange, by simp only [a, b, c, if_false, if_true]⟩

end Seq
end CM

namespace CM
namespace Seq
open SeqSpec
variable {α : Type}

/-! ### InsertValue -/

theorem insertLoop_after [Inhabited α] (slot : Nat) (v : α) :
    ∀ (it : List α) (index : Nat), slot < index → insertLoop slot v it.length index it = it
  | [], _, _ => by simp [insertLoop]
  | x :: xs, index, h => by
    have hne : ¬ index = slot := by omega
    rw [List.length_cons, insertLoop]
    simp only [hne, if_false, itNext]
    rw [insertLoop_after slot v xs (index+1) (by omega)]

theorem insertLoop_before [Inhabited α] (slot : Nat) (v : α) :
    ∀ (it : List α) (index : Nat), index ≤ slot → slot - index ≤ it.length →
      insertLoop slot v (it.length + 1) index it = it.take (slot - index) ++ v :: it.drop (slot - index)
  | it, index, h1, h2 => by
    by_cases he : index = slot
    · subst he
      simp only [insertLoop, if_true, Nat.sub_self, List.take_zero, List.drop_zero, List.nil_append]
      rw [insertLoop_after index v it (index+1) (by omega)]
    · cases it with
      | nil => simp at h2; omega
      | cons x xs =>
        rw [List.length_cons, insertLoop]
        simp only [he, if_false, itNext]
        rw [insertLoop_before slot v xs (index+1) (by omega) (by simp at h2; omega)]
        have : slot - index = (slot - (index+1)) + 1 := by omega
        rw [this]; simp

theorem insertValue_spec [Inhabited α] (l : List α) (slot : Nat) (v : α) (h : slot ≤ l.length) :
    insertValue l slot v = .ok (l.take slot ++ v :: l.drop slot) := by
  unfold insertValue
  have : ¬ slot > l.length := by omega
  simp only [this, if_false]
  rw [insertLoop_before slot v l 0 (by omega) (by omega)]
  simp

theorem insertValue_out [Inhabited α] (l : List α) (slot : Nat) (v : α) (h : l.length < slot) :
    insertValue l slot v = .error .slot := by
  unfold insertValue; simp [h]

/-! ### InsertValues -/

theorem insertsLoop_after [Inhabited α] (size slot : Nat) (vs : List α) :
    ∀ (it : List α) (fuel index : Nat), size = index + it.length → it.length + 1 ≤ fuel →
      insertsLoop size slot vs fuel index true it = some it
  | [], fuel, index, hs, hf => by
    cases fuel with
    | zero => omega
    | succ f => simp at hs; simp [insertsLoop, hs]
  | x :: xs, fuel, index, hs, hf => by
    cases fuel with
    | zero => omega
    | succ f =>
      simp at hs hf
      have : index < size := by omega
      simp only [insertsLoop, this, if_true, itNext]
      simp only [Bool.true_eq_false, and_false, if_false]
      rw [insertsLoop_after size slot vs xs f (index+1) (by omega) (by omega)]
      simp

theorem insertsLoop_before [Inhabited α] (size slot : Nat) (vs : List α) :
    ∀ (it : List α) (fuel index : Nat), size = index + it.length + vs.length → index ≤ slot →
      slot - index ≤ it.length → it.length + 2 ≤ fuel →
      insertsLoop size slot vs fuel index false it
        = some (it.take (slot - index) ++ vs ++ it.drop (slot - index))
  | it, fuel, index, hs, h1, h2, hf => by
    cases fuel with
    | zero => omega
    | succ f =>
      by_cases hlt : index < size
      · by_cases he : index = slot
        · subst he
          simp only [insertsLoop, hlt, if_true, and_self]
          rw [insertsLoop_after size index vs it f (index + vs.length) (by omega) (by omega)]
          simp
        · cases it with
          | nil => simp at h2; omega
          | cons x xs =>
            simp only [insertsLoop, hlt, if_true, he, false_and, if_false, itNext]
            simp at hs h2 hf
            rw [insertsLoop_before size slot vs xs f (index+1) (by omega) (by omega) (by omega) (by omega)]
            have : slot - index = (slot - (index+1)) + 1 := by omega
            rw [this]; simp
      · -- index = size: nothing left to copy and the operand is empty
        have hit : it = [] := List.eq_nil_of_length_eq_zero (by omega)
        have hvs : vs = [] := List.eq_nil_of_length_eq_zero (by omega)
        subst hit; subst hvs
        simp [insertsLoop, hlt]

theorem insertValues_spec [Inhabited α] (l : List α) (slot : Nat) (vs : List α) (h : slot ≤ l.length) :
    insertValues l slot vs = some (.ok (l.take slot ++ vs ++ l.drop slot)) := by
  unfold insertValues
  have : ¬ slot > l.length := by omega
  simp only [this, if_false]
  rw [insertsLoop_before (l.length + vs.length) slot vs l _ 0 (by omega) (by omega) (by omega) (by omega)]
  simp

theorem insertValues_out [Inhabited α] (l : List α) (slot : Nat) (vs : List α) (h : l.length < slot) :
    insertValues l slot vs = some (.error .slot) := by
  unfold insertValues; simp [h]

/-! ### RemoveValue -/

theorem removeLoop_done : ∀ (l : List α) (c : Int), c ≤ 0 → removeLoop c l = l
  | [], _, _ => by simp [removeLoop]
  | x :: xs, c, h => by
    have : ¬ c - 1 = 0 := by omega
    simp only [removeLoop, this, if_false]
    rw [removeLoop_done xs (c - 1) (by omega)]

theorem removeLoop_spec : ∀ (l : List α) (p : Nat), removeLoop ((p : Int) + 1) l = l.eraseIdx p
  | [], p => by simp [removeLoop]
  | x :: xs, 0 => by
    simp only [removeLoop]
    simp [removeLoop_done xs 0 (by omega)]
  | x :: xs, p+1 => by
    have : ¬ ((↑(p+1) : Int) + 1 - 1 = 0) := by omega
    simp only [removeLoop, this, if_false]
    have e : ((↑(p+1) : Int) + 1 - 1) = (p : Int) + 1 := by omega
    rw [e, removeLoop_spec xs p]
    simp

/-! ### RemoveValues -/

theorem splitLoop_past (first last : Nat) : ∀ (l : List α) (c : Nat), last ≤ c →
    splitLoop first last c l = (l, [])
  | [], _, _ => by simp [splitLoop]
  | x :: xs, c, h => by
    have : c + 1 < first ∨ c + 1 > last := by omega
    simp only [splitLoop, this, if_true]
    rw [splitLoop_past first last xs (c+1) (by omega)]

theorem splitLoop_in (first last : Nat) : ∀ (l : List α) (c : Nat), first ≤ c + 1 → c ≤ last →
    splitLoop first last c l = (l.drop (last - c), l.take (last - c))
  | [], _, _, _ => by simp [splitLoop]
  | x :: xs, c, h1, h2 => by
    by_cases he : c = last
    · subst he
      rw [splitLoop_past first c (x :: xs) c (by omega)]; simp
    · have : ¬ (c + 1 < first ∨ c + 1 > last) := by omega
      simp only [splitLoop, this, if_false]
      rw [splitLoop_in first last xs (c+1) (by omega) (by omega)]
      have e : last - c = (last - (c+1)) + 1 := by omega
      rw [e]; simp

theorem splitLoop_before (first last : Nat) : ∀ (l : List α) (c : Nat), c + 1 ≤ first → first ≤ last + 1 →
    splitLoop first last c l =
      (l.take (first - 1 - c) ++ l.drop (last - c), (l.drop (first - 1 - c)).take (last + 1 - first))
  | [], _, _, _ => by simp [splitLoop]
  | x :: xs, c, h1, h2 => by
    by_cases he : c + 1 = first
    · rw [splitLoop_in first last (x :: xs) c (by omega) (by omega)]
      have e1 : first - 1 - c = 0 := by omega
      have e2 : last + 1 - first = last - c := by omega
      rw [e1, e2]; simp
    · have : c + 1 < first ∨ c + 1 > last := by omega
      simp only [splitLoop, this, if_true]
      rw [splitLoop_before first last xs (c+1) (by omega) h2]
      have e1 : first - 1 - c = (first - 1 - (c+1)) + 1 := by omega
      have e2 : last - c = (last - (c+1)) + 1 := by omega
      rw [e1, e2]; simp

/-! ### GetIndex / Contains -/

theorem getIndexFrom_spec (eqv : α → α → Bool) (v : α) : ∀ (l : List α) (k : Nat),
    getIndexFrom eqv v k l = match l.findIdx? (fun c => eqv c v) with
      | none => 0 | some i => k + i + 1
  | [], k => by simp [getIndexFrom]
  | c :: cs, k => by
    simp only [getIndexFrom, List.findIdx?_cons]
    by_cases h : eqv c v = true
    · simp [h]
    · simp only [h, if_false]
      rw [getIndexFrom_spec eqv v cs (k+1)]
      cases List.findIdx? (fun c => eqv c v) cs with
      | none => simp
      | some i => simp; omega

theorem getIndex_spec (eqv : α → α → Bool) (l : List α) (v : α) :
    getIndex eqv l v = firstIndex eqv l v := by
  unfold getIndex firstIndex
  rw [getIndexFrom_spec]
  cases List.findIdx? (fun c => eqv c v) l <;> simp

theorem getIndex_pos_iff (eqv : α → α → Bool) (l : List α) (v : α) :
    getIndex eqv l v > 0 ↔ l.any (fun c => eqv c v) = true := by
  rw [getIndex_spec]; unfold firstIndex
  cases h : List.findIdx? (fun c => eqv c v) l with
  | none =>
    simp only [List.findIdx?_eq_none_iff] at h
    simp; intro x hx; simpa using h x hx
  | some i =>
    have := List.findIdx?_eq_some_iff_getElem.mp h
    obtain ⟨hi, hp, _⟩ := this
    simp; exact ⟨l[i], List.getElem_mem hi, hp⟩

theorem containsValue_spec (eqv : α → α → Bool) (l : List α) (v : α) :
    containsValue eqv l v = l.any (fun c => eqv c v) := by
  unfold containsValue
  have := getIndex_pos_iff eqv l v
  cases hh : l.any (fun c => eqv c v) with
  | true => simp [this.mpr hh]
  | false =>
    have : ¬ getIndex eqv l v > 0 := by intro h; rw [this.mp h] at hh; cases hh
    simp; omega

theorem containsAny_spec (eqv : α → α → Bool) (l : List α) : ∀ vs : List α,
    containsAny eqv l vs = vs.any (fun v => l.any (fun c => eqv c v))
  | [] => by simp [containsAny]
  | c :: cs => by
    rw [containsAny, List.any_cons, containsAny_spec eqv l cs]
    have := getIndex_pos_iff eqv l c
    cases hh : l.any (fun x => eqv x c) with
    | true => simp [this.mpr hh]
    | false =>
      have h2 : ¬ getIndex eqv l c > 0 := by intro h; rw [this.mp h] at hh; cases hh
      simp [h2]

theorem containsAll_spec (eqv : α → α → Bool) (l : List α) : ∀ vs : List α,
    containsAll eqv l vs = vs.all (fun v => l.any (fun c => eqv c v))
  | [] => by simp [containsAll]
  | c :: cs => by
    rw [containsAll, List.all_cons, containsAll_spec eqv l cs]
    have := getIndex_pos_iff eqv l c
    cases hh : l.any (fun x => eqv x c) with
    | true =>
      have h2 : ¬ getIndex eqv l c = 0 := by have := this.mpr hh; omega
      simp [h2]
    | false =>
      have h2 : getIndex eqv l c = 0 := by
        have h3 : ¬ getIndex eqv l c > 0 := by intro h; rw [this.mp h] at hh; cases hh
        omega
      simp [h2]

/-! ### constructors -/

theorem foldl_append_singleton (acc vs : List α) : vs.foldl appendValue acc = acc ++ vs := by
  induction vs generalizing acc with
  | nil => simp
  | cons x xs ih => simp [List.foldl_cons, appendValue, ih]

theorem makeFromSequence_spec (vs : List α) : makeFromSequence vs = vs := by
  unfold makeFromSequence; rw [foldl_append_singleton]; simp

theorem concatenate_spec (a b : List α) : concatenate a b = a ++ b := by
  simp [concatenate, appendValues]

end Seq
end CM

namespace CM
namespace Seq
open SeqSpec
variable {α : Type}

theorem removeValue_some [Inhabited α] (l : List α) (i : Int) (p : Nat) (hp : pos l.length i = some p) :
    removeValue l i = .ok (l.getD p default, l.eraseIdx p) := by
  unfold removeValue getValue
  rw [toZeroBased_some _ _ _ hp, toNormalized_some _ _ _ hp]
  simp only [removeLoop_spec]

theorem removeValue_none [Inhabited α] (l : List α) (i : Int) (hp : pos l.length i = none) :
    ∃ c, removeValue l i = .error c := by
  obtain ⟨c, hc⟩ := toZeroBased_none _ _ hp
  exact ⟨c, by simp [removeValue, getValue, hc]⟩

theorem pos_one (n : Nat) (h : 0 < n) : pos n 1 = some 0 := by
  unfold pos
  have : (1 : Int) ≤ 1 ∧ (1 : Int) ≤ (n : Int) := by omega
  simp [this]

end Seq
end CM
