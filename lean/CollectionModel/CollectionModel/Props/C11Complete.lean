/-
  C11, completeness half at token level — **every sentence of the rule definitions of
  Syntax.cdsn is accepted with its intended meaning**: for every syntax tree of

      AST: Collection EOL* EOF,  Collection: "[" Items "]" "(" type ")",
      Items: Values | Associations (inline, multi-line or empty), Association: Intrinsic ":" Value,
      Value: Intrinsic | Collection

  (nested without bound), whose literals the standard conversion accepts and whose contexts
  fit their items, the parser model returns exactly the collection the tree denotes –
  whatever the positions of the tokens, for every conversion oracle and push-back capacity ≥ 4.
  The lexical level (which character strings are which tokens) is the scanner's business:
  C11_scan_* for numbers, the correspondence run for the rest.
-/
import CollectionModel.Lemmas.ParseComplete2
import CollectionModel.Props.C12Total
namespace CM
open CM.Cdcn

/-- `parseCollection` on the tokens of a collection sentence -/
theorem cCollection (env : Env) (hcap : 3 < env.stackSize) (lb : Token) (items : SItems) (rb lp ty rp : Token) (g : Nat) (s : PS)
    (rest : List Token) (x : Val) (hg : (SValue.coll lb items rb lp ty rp).Good)
    (hm : (SValue.coll lb items rb lp ty rp).mean env = some x)
    (hs : stream s = (SValue.coll lb items rb lp ty rp).toks ++ rest) (hw : WF env s) (hf : Fuel 1 (g + 2) s) :
    Done env (parseCollection env (g + 2) s) x rest := by
  simp only [SValue.Good] at hg
  obtain ⟨hlb, hgi, hrb, hlp, hty, hrp⟩ := hg
  simp only [SValue.mean] at hm
  cases hmi : items.mean env with
  | none => rw [hmi] at hm; cases hm
  | some vs =>
    rw [hmi] at hm
    simp only at hm
    simp only [SValue.toks, List.cons_append, List.append_assoc] at hs
    obtain ⟨s2, hp2, hs2, hw2, _⟩ := parseToken_hit env hcap TT.delimiter (some "[") s hw lb _ hs
      (delim_matches lb "[" hlb) (by decide) (by decide)
    have hlen : (stream s).length = (stream s2).length + 1 := by rw [hs, hs2]; simp
    obtain ⟨tok3, s3, hr3, hs3, hw3, ht3⟩ := cItems env hcap items g s2 (rb :: lp :: ty :: rp :: rest) vs hgi hmi
      (by rw [hs2]; simp) ⟨rb, _, rfl, hrb⟩ hw2 (by unfold Fuel at hf ⊢; omega)
    obtain ⟨s4, hp4, hs4, hw4, _⟩ := parseToken_hit env hcap TT.delimiter (some "]") s3 hw3 rb _ hs3
      (delim_matches rb "]" hrb) (by decide) (by decide)
    obtain ⟨s5, hp5, hs5, hw5, _⟩ := parseToken_hit env hcap TT.delimiter (some "(") s4 hw4 lp _ hs4
      (delim_matches lp "(" hlp) (by decide) (by decide)
    obtain ⟨s6, hp6, hs6, hw6, _⟩ := parseToken_hit env hcap TT.type none s5 hw5 ty _ hs5
      (by simp [tokMatches, hty]) (by decide) (by decide)
    obtain ⟨s7, hp7, hs7, hw7, _⟩ := parseToken_hit env hcap TT.delimiter (some ")") s6 hw6 rp _ hs6
      (delim_matches rp ")" hrp) (by decide) (by decide)
    refine ⟨some rp, s7, ?_, hs7, hw7, tokOk_of_mem env s hw rp (by rw [hs]; simp)⟩
    simp only [parseCollection, parseSequence, hp2, hr3, hp4, hp5, hp6, hp7]
    exact mkCollection_eq env ty.value vs (some rp) s7 x hm

/-- the trailing end-of-lines are skipped up to the EOF token -/
theorem skipEols_to_eof (env : Env) (hcap : 3 < env.stackSize) (eof : Token) (heof : eof.tt = .eof) :
    ∀ (eols : List Token) (f : Nat) (s : PS), (∀ e ∈ eols, isEol e = true) → stream s = eols ++ [eof] → WF env s → Fuel 0 f s →
      ∃ tok s', skipEols env f s = .ok () tok s' ∧ stream s' = [eof] ∧ WF env s'
  | [], f, s, _, hs, hw, hf => by
    have hf8 := stream_nonempty_fuel env hw hf
    obtain ⟨g, rfl⟩ : ∃ g, f = g + 1 := ⟨f - 1, by omega⟩
    simp only [List.nil_append] at hs
    have hmiss : tokMatches eof TT.eol none = false := by simp [tokMatches, heof]
    obtain ⟨s1, hp1, hs1, hw1, _⟩ := parseToken_miss env hcap TT.eol none s hw eof [] hs hmiss (by rw [heof]; decide)
    exact ⟨some eof, s1, by simp only [skipEols, hp1], by rw [hs1, hs], hw1⟩
  | e :: eols, f, s, he, hs, hw, hf => by
    have hf8 := stream_nonempty_fuel env hw hf
    obtain ⟨g, rfl⟩ : ∃ g, f = g + 1 := ⟨f - 1, by omega⟩
    simp only [List.cons_append] at hs
    obtain ⟨s1, hp1, hs1, hw1, _⟩ := parseToken_hit env hcap TT.eol none s hw e _ hs (eol_matches e (he e (by simp)))
      (by decide) (by decide)
    have hlen : (stream s).length = (stream s1).length + 1 := by rw [hs, hs1]; simp
    obtain ⟨tok, s', hr, hs', hw'⟩ := skipEols_to_eof env hcap eof heof eols g s1 (fun x hx => he x (by simp [hx])) hs1 hw1
      (by unfold Fuel at hf ⊢; omega)
    exact ⟨tok, s', by simp only [skipEols, hp1]; exact hr, hs', hw'⟩

/-- **C11 (token level): every sentence is accepted with its intended meaning.**  If the
    scanner turns the source into the tokens of a syntax tree `Collection EOL* EOF` whose
    tokens are of the kinds the rules name and whose meaning is defined, `ParseSource`
    returns exactly that meaning. -/
theorem C11_sentence_accepted (src : Src) (stackSize : Nat) (hcap : 3 < stackSize) (conv : Token → Option Val)
    (mkSet : List Val → Option Val)
    (lb : Token) (items : SItems) (rb lp ty rp : Token) (eols : List Token) (eof : Token) (x : Val) :
    let env : Env := { stackSize := stackSize, nlines := (src.filter (· == 10)).length + 1, conv := conv, mkSet := mkSet }
    (SValue.coll lb items rb lp ty rp).Good →
    (SValue.coll lb items rb lp ty rp).mean env = some x →
    (∀ e ∈ eols, isEol e = true) → eof.tt = .eof →
    scan src = (SValue.coll lb items rb lp ty rp).toks ++ (eols ++ [eof]) →
    parseTokens env (8 * (scan src).length + 16) (scan src) = .value x := by
  intro env hg hm heols heof hscan
  have hw0 : WF env { rest := scan src, stack := [] } := wf_initial env src rfl
  have hlen0 : (stream { rest := scan src, stack := [] }).length = (scan src).length := by simp [stream]
  obtain ⟨tok1, s1, hr1, hs1, hw1, _⟩ := cCollection env hcap lb items rb lp ty rp (8 * (scan src).length + 14)
    { rest := scan src, stack := [] } (eols ++ [eof]) x hg hm (by simp [stream, hscan]) hw0
    (by unfold Fuel; rw [hlen0]; omega)
  have hl1 : (stream s1).length ≤ (scan src).length := by rw [hs1, hscan]; simp
  obtain ⟨tok2, s2, hr2, hs2, hw2⟩ := skipEols_to_eof env hcap eof heof eols (8 * (scan src).length + 16) s1 heols hs1 hw1
    (by unfold Fuel; omega)
  -- the EOF token is next
  obtain ⟨s3, hg3, _, _, _⟩ := getNext_head env s2 hw2 eof [] hs2 (by rw [heof]; decide)
  unfold parseTokens
  rw [show 8 * (scan src).length + 16 = (8 * (scan src).length + 14) + 2 from rfl] at *
  rw [hr1]
  simp only
  rw [hr2]
  simp only [parseToken, hg3, heof, beq_self_eq_true, Bool.and_true, if_true]

end CM
