/-
  C12 — ParseSource is total: any input ends in a value or a located syntax diagnostic.

  Proved here (for EVERY source string): the shape of the token stream, the position
  bookkeeping behind the diagnostics, and the safety of the diagnostic formatter's line
  lookup.  The totality of the recursive-descent parser over every such stream
  (`C12_parse_total_statement`) is stated here and PROVED in `Props/C12Total.lean`.
-/
import CollectionModel.Model.Cdcn.Parse
namespace CM
open CM.Cdcn

def isEof (t : Token) : Bool := t.tt == .eof

theorem firstMatch_tt : ∀ (ms : List (TT × (Src → Option Nat))) (src : Src) (tt : TT) (n : Nat),
    firstMatch ms src = some (tt, n) → tt ∈ ms.map (·.1)
  | [], _, _, _, h => by simp [firstMatch] at h
  | (t, m) :: rest, src, tt, n, h => by
    simp only [firstMatch] at h
    cases hm : m src with
    | some k => rw [hm] at h; simp at h; simp [h.1]
    | none => rw [hm] at h; simp [firstMatch_tt rest src tt n h]

theorem matchToken_tt (src : Src) (tt : TT) (n : Nat) (h : matchToken src = some (tt, n)) :
    tt ≠ .eof ∧ tt ≠ .error := by
  have := firstMatch_tt matchers src tt n h
  simp [matchers] at this
  rcases this with h | h | h | h | h | h | h | h | h | h | h | h <;> subst h <;> exact ⟨by decide, by decide⟩

/-- **the token stream always ends with exactly one EOF token, and an error token can only be
    the one right before it** – for every source and every fuel -/
theorem C12_scan_shape : ∀ (fuel : Nat) (src : Src) (lc : Nat × Nat),
    ∃ ts eof, scanLoop fuel src lc = ts ++ [eof] ∧ isEof eof = true ∧ (∀ t ∈ ts, isEof t = false) ∧
      (∀ t ∈ ts.dropLast, t.tt ≠ .error)
  | 0, src, lc => ⟨[], { tt := .eof, value := [], line := lc.1, pos := lc.2 }, by simp [scanLoop], rfl, by simp, by simp⟩
  | fuel+1, [], lc => ⟨[], { tt := .eof, value := [], line := lc.1, pos := lc.2 }, by simp [scanLoop], rfl, by simp, by simp⟩
  | fuel+1, c :: cs, lc => by
    simp only [scanLoop]
    cases hm : matchToken (c :: cs) with
    | none => exact ⟨[_], _, rfl, rfl, by simp [isEof], by simp⟩
    | some p =>
      obtain ⟨tt, n⟩ := p
      simp only
      obtain ⟨ts, eof, h1, h2, h3, h4⟩ := C12_scan_shape fuel
        ((c :: cs).drop (if n == 0 then 1 else n)) (advance lc ((c :: cs).take (if n == 0 then 1 else n)))
      by_cases hs : tt = .space
      · subst hs; simp only [beq_self_eq_true, if_true]; exact ⟨ts, eof, h1, h2, h3, h4⟩
      · have hs' : (tt == TT.space) = false := by cases tt <;> simp_all
        simp only [hs', Bool.false_eq_true, if_false]
        have hne : tt ≠ .eof ∧ tt ≠ .error := matchToken_tt _ tt n hm
        refine ⟨_ :: ts, eof, by rw [h1]; rfl, h2, ?_, ?_⟩
        · intro t ht
          rcases List.mem_cons.mp ht with rfl | ht
          · simp only [isEof]; cases tt <;> simp_all
          · exact h3 t ht
        · intro t ht
          cases ts with
          | nil => simp at ht
          | cons x xs =>
            simp only [List.dropLast_cons₂, List.mem_cons] at ht
            rcases ht with rfl | ht
            · exact hne.2
            · exact h4 t ht

/-- **every token carries the line and column at which its text begins**: the position is
    obtained by advancing (1,1) over exactly the runes that precede the token in the source,
    a newline starting a new line and any other rune advancing the column -/
theorem C12_token_positions : ∀ (fuel : Nat) (src : Src) (lc : Nat × Nat) (t : Token),
    t ∈ scanLoop fuel src lc → ∃ pre : List Nat, pre.length ≤ src.length ∧ src.take pre.length = pre ∧
      (t.line, t.pos) = advance lc pre
  | 0, src, lc, t, h => by
    simp [scanLoop] at h; subst h; exact ⟨[], by simp, by simp, by simp [advance]⟩
  | fuel+1, [], lc, t, h => by
    simp [scanLoop] at h; subst h; exact ⟨[], by simp, by simp, by simp [advance]⟩
  | fuel+1, c :: cs, lc, t, h => by
    simp only [scanLoop] at h
    cases hm : matchToken (c :: cs) with
    | none =>
      rw [hm] at h
      simp at h
      rcases h with rfl | rfl <;> exact ⟨[], by simp, by simp, by simp [advance]⟩
    | some p =>
      obtain ⟨tt, n⟩ := p
      rw [hm] at h
      simp only at h
      generalize hk : (if n == 0 then 1 else n) = k at h
      have key : ∀ t, t ∈ scanLoop fuel ((c :: cs).drop k) (advance lc ((c :: cs).take k)) →
          ∃ pre : List Nat, pre.length ≤ (c :: cs).length ∧ (c :: cs).take pre.length = pre ∧
            (t.line, t.pos) = advance lc pre := by
        intro t ht
        obtain ⟨pre, h1, h2, h3⟩ := C12_token_positions fuel _ _ t ht
        refine ⟨(c :: cs).take k ++ pre, ?_, ?_, ?_⟩
        · simp only [List.length_append, List.length_take, List.length_drop] at *; omega
        · by_cases hle : k ≤ (c :: cs).length
          · have hl : ((c :: cs).take k ++ pre).length = k + pre.length := by
              simp only [List.length_append, List.length_take, List.length_cons] at *; omega
            rw [hl, List.take_add, h2]
          · have hd : (c :: cs).drop k = [] := List.drop_of_length_le (by omega)
            rw [hd] at h1 h2
            have hp : pre = [] := List.eq_nil_of_length_eq_zero (by simpa using h1)
            subst hp
            have ht' : (c :: cs).take k = c :: cs := List.take_of_length_le (by omega)
            simp [ht']
        · rw [h3]; simp [advance, List.foldl_append]
      split at h
      · exact key t h
      · rcases List.mem_cons.mp h with rfl | h
        · exact ⟨[], by simp, by simp, by simp [advance]⟩
        · exact key t h

theorem advance_line_le (lc : Nat × Nat) (pre : List Nat) :
    (advance lc pre).1 = lc.1 + (pre.filter (· == 10)).length := by
  induction pre generalizing lc with
  | nil => simp [advance]
  | cons x xs ih =>
    have e : advance lc (x :: xs) = advance (if x == 10 then (lc.1 + 1, 1) else (lc.1, lc.2 + 1)) xs := by
      simp [advance]
    rw [e, ih]
    by_cases hx : (x == 10) = true
    · simp [hx]; omega
    · simp [hx]

theorem filter_take_le (l : List Nat) (k : Nat) : ((l.take k).filter (· == 10)).length ≤ (l.filter (· == 10)).length := by
  have : (l.take k).Sublist l := List.take_sublist k l
  exact (List.Sublist.filter _ this).length_le

/-- **the diagnostic formatter's source-line lookup is always in range**: every token's line
    lies in `1 .. number of lines of the source` (`lines[line-1]` cannot fail) -/
theorem C12_token_line_in_range (src : Src) (t : Token) (h : t ∈ scan src) :
    1 ≤ t.line ∧ t.line ≤ (src.filter (· == 10)).length + 1 := by
  obtain ⟨pre, h1, h2, h3⟩ := C12_token_positions _ src (1, 1) t h
  have hl := advance_line_le (1, 1) pre
  have e : t.line = (advance (1, 1) pre).1 := by rw [← h3]
  rw [e, hl]
  have := filter_take_le src pre.length
  rw [h2] at this
  simp only; omega

/-- outcomes that C12 allows -/
def Cdcn.Parsed.acceptable : Parsed → Bool
  | .value _ => true
  | .diag _ => true
  | _ => false

/-- the full-strength totality statement for the parser model, over every token stream the
    scanner can produce, every literal-conversion oracle and the real stack capacity.
    PROVED in `Props/C12Total.lean` (`C12_parse_total`, `C12_parse_total_statement_holds`). -/
def C12_parse_total_statement : Prop :=
  ∀ (src : Src) (conv : Token → Option Val) (mkSet : List Val → Option Val),
    (∀ items, (mkSet items).isSome) →
    (parseTokens { stackSize := 4, nlines := (src.filter (· == 10)).length + 1, conv := conv, mkSet := mkSet }
      (8 * (scan src).length + 16) (scan src)).acceptable = true

example : (scan ("[1](List)".toList.map ch)).length = 7 := by decide

end CM
