/- operation language, step function and abstract specification for Sets (C02, C15) -/
import CollectionModel.Model.SetM
import CollectionModel.Spec.SeqSpec
namespace CM
namespace SetM
open CM.Seq

inductive Op (α : Type)
  | addValue (v : α) | addValues (vs : List α) | removeValue (v : α) | removeValues (vs : List α) | removeAll
  | containsValue (v : α) | containsAny (vs : List α) | containsAll (vs : List α) | getIndex (v : α)
  | getValue (i : Int) | getValues (f l : Int) | asArray | iterate | getSize | isEmpty
  | make (vs : List α)
  | setAnd (a b : List α) | setOr (a b : List α) | setSans (a b : List α) | setXor (a b : List α)
  deriving Repr

abbrev Obs (α : Type) := Outcome (List α) (Res α)

variable {α : Type} [Inhabited α]

def obsR (s : List α) (r : R (List α)) : Obs α :=
  match r with
  | none => .hang
  | some (.ok s') => .ret s' .unit
  | some (.error p) => .panic s p

def obsB (s : List α) (r : R Bool) : Obs α :=
  match r with
  | none => .hang
  | some (.ok b) => .ret s (.bool b)
  | some (.error p) => .panic s p

/-- one call on a Set whose collator is `rank` -/
def step2 (rank rank2 : α → α → Rank) (s : List α) : Op α → Obs α
  | .addValue v => obsR s (addValue rank s v)
  | .addValues vs => obsR s (addValues rank s vs)
  | .removeValue v => obsR s (removeValue rank s v)
  | .removeValues vs => obsR s (removeValues rank s vs)
  | .removeAll => .ret [] .unit
  | .containsValue v => obsB s (containsValue rank s v)
  | .containsAny vs => obsB s (containsAny rank s vs)
  | .containsAll vs => obsB s (containsAll rank s vs)
  | .getIndex v => match getIndex rank s v with
      | none => .hang | some (.ok k) => .ret s (.nat k) | some (.error p) => .panic s p
  | .getValue i => Seq.step (fun _ _ => false) rank s (.getValue i)       -- delegated to the list
  | .getValues f l => Seq.step (fun _ _ => false) rank s (.getValues f l)
  | .asArray => .ret s (.vals s)
  | .iterate => .ret s (.vals s)
  | .getSize => .ret s (.nat s.length)
  | .isEmpty => .ret s (.bool (s.length == 0))
  | .make vs => obsR s (makeFrom rank vs)
  | .setAnd a b => obsR s (setAnd rank rank2 a b)
  | .setOr a b => obsR s (setOr rank a b)
  | .setSans a b => obsR s (setSans rank a b)
  | .setXor a b => obsR s (setXor rank rank2 a b)

/-- one call on a Set whose collator is `rank` (operands carry the same collator) -/
abbrev step (rank : α → α → Rank) (s : List α) (op : Op α) : Obs α := step2 rank rank s op

/-! ### abstract specification (decidable, independent of the search/rebuild loops) -/

/-- strictly ascending: every earlier value ranks Lesser than every later one -/
def strictAsc (rank : α → α → Rank) : List α → Bool
  | [] => true
  | a :: rest => rest.all (fun b => rank a b == .lt) && strictAsc rank rest

/-- membership up to rank-equivalence (same as `mem`, restated for the spec) -/
def member (rank : α → α → Rank) (l : List α) (v : α) : Bool := l.any (fun x => rank v x == .eq)

variable [DecidableEq α]

def retWhere (o : Obs α) (r : Res α) (p : List α → Bool) : Bool :=
  match o with
  | .ret s' r' => r' == r && p s'
  | _ => false

/-- what the abstract ordered set allows for a call on a strictly ascending state `s` -/
def allowed2 (rank rank2 : α → α → Rank) (s : List α) (op : Op α) (o : Obs α) : Bool :=
  match op with
  | .addValue v =>
      if member rank s v then SeqSpec.isRet o s .unit
      else retWhere o .unit (fun s' => strictAsc rank s' && s'.isPerm (v :: s))
  | .addValues vs =>
      retWhere o .unit (fun r => strictAsc rank r && r.all (fun x => s.contains x || vs.contains x)
        && s.all (fun x => r.contains x) && vs.all (fun x => member rank r x))
  | .removeValue v => SeqSpec.isRet o (s.filter (fun x => rank v x != .eq)) .unit
  | .removeValues vs => SeqSpec.isRet o (s.filter (fun x => vs.all (fun v => rank v x != .eq))) .unit
  | .removeAll => SeqSpec.isRet o [] .unit
  | .containsValue v => SeqSpec.isRet o s (.bool (member rank s v))
  | .containsAny vs => SeqSpec.isRet o s (.bool (vs.any (fun v => member rank s v)))
  | .containsAll vs => SeqSpec.isRet o s (.bool (vs.all (fun v => member rank s v)))
  | .getIndex v => (match o with
      | .ret s' (.nat k) => s' == s &&
          (if member rank s v then (match s[k-1]? with | some x => k ≥ 1 && rank v x == .eq | none => false)
           else k == 0)
      | _ => false)
  | .getValue i => SeqSpec.allowed (fun a b => a == b) rank s (.getValue i) o
  | .getValues f l => SeqSpec.allowed (fun a b => a == b) rank s (.getValues f l) o
  | .asArray => SeqSpec.isRet o s (.vals s) && strictAsc rank s
  | .iterate => SeqSpec.isRet o s (.vals s) && strictAsc rank s
  | .getSize => SeqSpec.isRet o s (.nat s.length)
  | .isEmpty => SeqSpec.isRet o s (.bool (s.length == 0))
  | .make vs =>
      retWhere o .unit (fun r => strictAsc rank r && r.all (fun x => vs.contains x) && vs.all (fun x => member rank r x))
  | .setAnd a b =>
      retWhere o .unit (fun r => strictAsc rank r && r.all (fun x => a.contains x && member rank2 b x)
        && a.all (fun x => !member rank2 b x || member rank r x))
  | .setOr a b =>
      retWhere o .unit (fun r => strictAsc rank r && r.all (fun x => a.contains x || b.contains x)
        && (a ++ b).all (fun x => member rank r x))
  | .setSans a b =>
      retWhere o .unit (fun r => strictAsc rank r && r.all (fun x => a.contains x && !member rank b x)
        && a.all (fun x => member rank b x || member rank r x))
  | .setXor a b =>
      retWhere o .unit (fun r => strictAsc rank r
        && r.all (fun x => (a.contains x && !member rank b x) || (b.contains x && !member rank2 a x))
        && a.all (fun x => member rank b x || member rank r x)
        && b.all (fun x => member rank2 a x || member rank r x))

abbrev allowed (rank : α → α → Rank) (s : List α) (op : Op α) (o : Obs α) : Bool := allowed2 rank rank s op o

end SetM
end CM
