/-
  Model of `agent/iterator.go`: a cursor `slot ∈ [0..size]` over an immutable
  snapshot `values`.
-/
import CollectionModel.Model.Basic
namespace CM
namespace Iter

structure St (α : Type) where
  values : List α
  slot : Int
  deriving Repr, DecidableEq

inductive Op
  | getNext | getPrevious | hasNext | hasPrevious | toStart | toEnd | toSlot (k : Int)
  | getSlot | getSize | isEmpty
  deriving Repr, DecidableEq

inductive Res (α : Type)
  | unit | val (a : α) | int (i : Int) | bool (b : Bool)
  deriving Repr, DecidableEq

variable {α : Type} [Inhabited α]

abbrev size (s : St α) : Int := s.values.length

/-- `values_[slot_-1]` -/
def at1 (s : St α) (k : Int) : α := s.values.getD (k - 1).toNat default

/-- `iterator_.ToSlot`: clamp to [-size, size], negative slots count from the end. -/
def toSlot (s : St α) (slot : Int) : St α :=
  let slot := if slot > size s then size s else slot
  let slot := if slot < -(size s) then -(size s) else slot
  let slot := if slot < 0 then slot + size s + 1 else slot
  { s with slot := slot }

def step (s : St α) : Op → St α × Res α
  | .getNext => if s.slot < size s then ({ s with slot := s.slot + 1 }, .val (at1 s (s.slot + 1))) else (s, .val default)
  | .getPrevious => if s.slot > 0 then ({ s with slot := s.slot - 1 }, .val (at1 s s.slot)) else (s, .val default)
  | .hasNext => (s, .bool (s.slot < size s))
  | .hasPrevious => (s, .bool (s.slot > 0))
  | .toStart => ({ s with slot := 0 }, .unit)
  | .toEnd => ({ s with slot := size s }, .unit)
  | .toSlot k => (toSlot s k, .unit)
  | .getSlot => (s, .int s.slot)
  | .getSize => (s, .int (size s))
  | .isEmpty => (s, .bool (size s == 0))

def run (s : St α) : List Op → St α
  | [] => s
  | op :: ops => run (step s op).1 ops

/-- abstract cursor specification, written independently of `step`:
    a position `p ∈ [0..n]` between elements of the snapshot -/
def allowed [DecidableEq α] (s : St α) (op : Op) (o : St α × Res α) : Bool :=
  let n : Int := s.values.length
  let p := s.slot
  match op with
  | .getNext => if p < n then o == ({ s with slot := p + 1 }, .val (s.values.getD p.toNat default))
                else o == (s, .val default)
  | .getPrevious => if p > 0 then o == ({ s with slot := p - 1 }, .val (s.values.getD (p - 1).toNat default))
                    else o == (s, .val default)
  | .hasNext => o == (s, .bool (decide (p < n)))
  | .hasPrevious => o == (s, .bool (decide (p > 0)))
  | .toStart => o == ({ s with slot := 0 }, .unit)
  | .toEnd => o == ({ s with slot := n }, .unit)
  | .toSlot k =>
      -- documented positioning: k ≥ 0 is the slot itself, -1 is the end, -n the first
      -- slot; anything beyond either end clamps to that end
      let target := if k > n then n else if k ≥ 0 then k else if k < -n then (if n = 0 then 0 else 1) else n + 1 + k
      o == ({ s with slot := target }, .unit)
  | .getSlot => o == (s, .int p)
  | .getSize => o == (s, .int n)
  | .isEmpty => o == (s, .bool (n == 0))

end Iter
end CM
