/-
  Model of `collection/queue.go`: a labelled transition system at the granularity of the
  synchronisation operations (one `Lock … Unlock` section, one channel send, one receive,
  one close).  The token channel `available_` is a counter `tokens ≤ cap` plus a `closed`
  flag (textbook buffered channel); the thread list is arbitrary, so every statement holds
  for any number of producers, consumers, closers and observers and every interleaving.
-/
import CollectionModel.Model.Basic
namespace CM
namespace Q

/-- where a thread is inside a queue call -/
inductive PC (α : Type)
  | idle                   -- between calls
  | addLock (v : α)        -- AddValue(v) invoked: about to lock + append
  | addSend                -- value appended: about to send the token (blocks while the channel is full)
  | remRecv                -- RemoveHead invoked: about to receive a token (blocks while empty and open)
  | remLock                -- token claimed: about to lock + pop the head
  | closeLock              -- CloseQueue invoked
  | sizeLock | emptyLock | arrayLock | removeAllLock
  deriving DecidableEq, Repr

structure St (α : Type) where
  cap : Nat
  vals : List α            -- `values_`
  tokens : Nat             -- len(available_)
  closed : Bool            -- available_ has been closed
  threads : List (PC α)
  appended : List α        -- ghost: every value ever appended, in order
  popped : List α          -- ghost: every value popped or discarded, in order
  deriving Repr

/-- an observable event of one atomic step of thread `t` -/
inductive Ev (α : Type)
  | call (t : Nat) (pc : PC α)          -- the thread enters a call (its first program point)
  | addLock (t : Nat)                    -- lock; append; unlock
  | addSend (t : Nat)                    -- token sent; AddValue returns
  | addSendPanic (t : Nat)               -- send on a closed channel: AddValue panics
  | remRecv (t : Nat) (ok : Bool)        -- token received (ok) or channel closed and drained (not ok: RemoveHead returns)
  | remLock (t : Nat) (v : α)            -- lock; pop head v; unlock; RemoveHead returns v
  | remLockPanic (t : Nat)               -- lock; the list is empty: RemoveValue(1) panics
  | closeLock (t : Nat)                  -- lock; close; unlock
  | closePanic (t : Nat)                 -- close of a closed channel
  | sizeLock (t : Nat) (n : Nat)         -- GetSize returns n
  | emptyLock (t : Nat) (b : Bool)       -- IsEmpty returns b
  | arrayLock (t : Nat) (l : List α)     -- AsArray / GetIterator returns l
  | removeAllLock (t : Nat)              -- lock; new channel; new list; unlock
  deriving Repr

variable {α : Type} [DecidableEq α]

def setPC (s : St α) (t : Nat) (pc : PC α) : St α := { s with threads := s.threads.set t pc }

@[simp] theorem setPC_tokens (s : St α) (t : Nat) (pc : PC α) : (setPC s t pc).tokens = s.tokens := rfl
@[simp] theorem setPC_closed (s : St α) (t : Nat) (pc : PC α) : (setPC s t pc).closed = s.closed := rfl
@[simp] theorem setPC_cap (s : St α) (t : Nat) (pc : PC α) : (setPC s t pc).cap = s.cap := rfl
@[simp] theorem setPC_vals (s : St α) (t : Nat) (pc : PC α) : (setPC s t pc).vals = s.vals := rfl
@[simp] theorem setPC_appended (s : St α) (t : Nat) (pc : PC α) : (setPC s t pc).appended = s.appended := rfl
@[simp] theorem setPC_popped (s : St α) (t : Nat) (pc : PC α) : (setPC s t pc).popped = s.popped := rfl
@[simp] theorem setPC_threads (s : St α) (t : Nat) (pc : PC α) : (setPC s t pc).threads = s.threads.set t pc := rfl

/-- executable transition function: `none` = the event is not possible in this state -/
def step (s : St α) : Ev α → Option (St α)
  | .call t pc =>
    if s.threads[t]? = some .idle ∧ pc ≠ .idle ∧ pc ≠ .addSend ∧ pc ≠ .remLock then some (setPC s t pc) else none
  | .addLock t =>
    match s.threads[t]? with
    | some (.addLock v) => some { setPC s t .addSend with vals := s.vals ++ [v], appended := s.appended ++ [v] }
    | _ => none
  | .addSend t =>
    if s.threads[t]? = some .addSend ∧ s.closed = false ∧ s.tokens < s.cap then
      some { setPC s t .idle with tokens := s.tokens + 1 } else none
  | .addSendPanic t =>
    if s.threads[t]? = some .addSend ∧ s.closed = true then some (setPC s t .idle) else none
  | .remRecv t ok =>
    if s.threads[t]? = some .remRecv then
      (if ok then (if 0 < s.tokens then some { setPC s t .remLock with tokens := s.tokens - 1 } else none)
       else (if s.tokens = 0 ∧ s.closed = true then some (setPC s t .idle) else none))
    else none
  | .remLock t v =>
    if s.threads[t]? = some .remLock then
      (match s.vals with
       | x :: xs => if x = v then some { setPC s t .idle with vals := xs, popped := s.popped ++ [x] } else none
       | [] => none)
    else none
  | .remLockPanic t =>
    if s.threads[t]? = some .remLock ∧ s.vals = [] then some (setPC s t .idle) else none
  | .closeLock t =>
    if s.threads[t]? = some .closeLock ∧ s.closed = false then some { setPC s t .idle with closed := true } else none
  | .closePanic t =>
    if s.threads[t]? = some .closeLock ∧ s.closed = true then some (setPC s t .idle) else none
  | .sizeLock t n =>
    if s.threads[t]? = some .sizeLock ∧ n = s.tokens then some (setPC s t .idle) else none
  | .emptyLock t b =>
    if s.threads[t]? = some .emptyLock ∧ b = (s.tokens == 0) then some (setPC s t .idle) else none
  | .arrayLock t l =>
    if s.threads[t]? = some .arrayLock ∧ l = s.vals then some (setPC s t .idle) else none
  | .removeAllLock t =>
    -- as written: a NEW channel and a NEW list (goroutines parked on the old channel are not modelled here)
    if s.threads[t]? = some .removeAllLock then
      some { setPC s t .idle with tokens := 0, closed := false, vals := [], popped := s.popped ++ s.vals } else none

def init (cap nthreads : Nat) : St α :=
  { cap := cap, vals := [], tokens := 0, closed := false, threads := List.replicate nthreads .idle, appended := [], popped := [] }

/-- run a whole trace; `none` as soon as an event is impossible -/
def run (s : St α) : List (Ev α) → Option (St α)
  | [] => some s
  | e :: es => match step s e with
    | some s' => run s' es
    | none => none

/-- index of the first impossible event of a trace (for diagnostics) -/
def firstBad (s : St α) : List (Ev α) → Nat → Option Nat
  | [], _ => none
  | e :: es, i => match step s e with
    | some s' => firstBad s' es (i + 1)
    | none => some i

def cnt (p : PC α → Bool) (s : St α) : Nat := s.threads.countP p
def isSending : PC α → Bool | .addSend => true | _ => false
def isClaimed : PC α → Bool | .remLock => true | _ => false

/-- the accounting invariant of the token/list protocol -/
def QInv (s : St α) : Prop :=
  s.vals.length = s.tokens + cnt isClaimed s + cnt isSending s ∧ s.tokens ≤ s.cap ∧ s.appended = s.popped ++ s.vals

end Q
end CM
