/-
  C12, continued — **ParseSource is total** on the parser model: for every source string,
  every literal-conversion oracle and every push-back stack of capacity ≥ 4, the parser
  returns a value or raises the located syntax diagnostic.  It never dereferences a missing
  token, never indexes a source line out of range, never overflows its push-back stack,
  never reads past the end of the token stream, and never runs out of the model's fuel
  (i.e. it terminates).
-/
import CollectionModel.Lemmas.ParseTotal
import CollectionModel.Props.C12
namespace CM
open CM.Cdcn

/-! ### the scanner's type tokens are context names -/

theorem firstMatch_mem : ∀ (ms : List (TT × (Src → Option Nat))) (src : Src) (tt : TT) (n : Nat),
    firstMatch ms src = some (tt, n) → ∃ m, (tt, m) ∈ ms ∧ m src = some n
  | [], _, _, _, h => by simp [firstMatch] at h
  | (t, m) :: rest, src, tt, n, h => by
    simp only [firstMatch] at h
    cases hm : m src with
    | some k =>
      rw [hm] at h; simp at h
      exact ⟨m, by simp [h.1], by rw [hm, h.2]⟩
    | none =>
      rw [hm] at h
      obtain ⟨m', h1, h2⟩ := firstMatch_mem rest src tt n h
      exact ⟨m', by simp [h1], h2⟩

theorem lit_spec (name : String) (src : Src) (n : Nat) (h : lit name src = some n) :
    n = name.length ∧ src.take n = name.toList.map ch := by
  unfold lit startsWith at h
  split at h
  · rename_i hp
    injection h with h; subst h
    obtain ⟨t, ht⟩ := List.isPrefixOf_iff_prefix.mp hp
    refine ⟨rfl, ?_⟩
    rw [← ht]
    have : name.length = (name.toList.map ch).length := by simp [String.length]
    rw [this, List.take_left]
  · cases h

theorem mType_spec (src : Src) (n : Nat) (h : mType src = some n) : src.take n ∈ ctxNames ∧ n ≠ 0 := by
  unfold mType at h
  simp only [List.foldl_cons, List.foldl_nil, Option.orElse_none] at h
  have key : ∀ (name : String), name.length ≠ 0 → name.toList.map ch ∈ ctxNames → lit name src = some n →
      src.take n ∈ ctxNames ∧ n ≠ 0 := by
    intro name hl hmem hlit
    obtain ⟨h1, h2⟩ := lit_spec name src n hlit
    exact ⟨by rw [h2]; exact hmem, by rw [h1]; exact hl⟩
  cases h1 : lit "Array" src with
  | some k => rw [h1] at h; simp at h; subst h; exact key "Array" (by decide) (by decide) h1
  | none =>
    rw [h1] at h; simp only [Option.orElse_none] at h
    cases h2 : lit "Catalog" src with
    | some k => rw [h2] at h; simp at h; subst h; exact key "Catalog" (by decide) (by decide) h2
    | none =>
      rw [h2] at h; simp only [Option.orElse_none] at h
      cases h3 : lit "List" src with
      | some k => rw [h3] at h; simp at h; subst h; exact key "List" (by decide) (by decide) h3
      | none =>
        rw [h3] at h; simp only [Option.orElse_none] at h
        cases h4 : lit "Map" src with
        | some k => rw [h4] at h; simp at h; subst h; exact key "Map" (by decide) (by decide) h4
        | none =>
          rw [h4] at h; simp only [Option.orElse_none] at h
          cases h5 : lit "Queue" src with
          | some k => rw [h5] at h; simp at h; subst h; exact key "Queue" (by decide) (by decide) h5
          | none =>
            rw [h5] at h; simp only [Option.orElse_none] at h
            cases h6 : lit "Set" src with
            | some k => rw [h6] at h; simp at h; subst h; exact key "Set" (by decide) (by decide) h6
            | none =>
              rw [h6] at h; simp only [Option.orElse_none] at h
              exact key "Stack" (by decide) (by decide) h

theorem matchToken_type (src : Src) (n : Nat) (h : matchToken src = some (.type, n)) : src.take n ∈ ctxNames ∧ n ≠ 0 := by
  obtain ⟨m, hm, hmn⟩ := firstMatch_mem matchers src .type n h
  simp only [matchers, List.mem_cons, Prod.mk.injEq, List.not_mem_nil, or_false] at hm
  rcases hm with h | h | h | h | h | h | h | h | h | h | h | h
  all_goals first
    | (exact absurd h.1 (by decide))
    | (obtain ⟨_, rfl⟩ := h; exact mType_spec src n hmn)

theorem scanLoop_types : ∀ (fuel : Nat) (src : Src) (lc : Nat × Nat) (t : Token),
    t ∈ scanLoop fuel src lc → t.tt = .type → t.value ∈ ctxNames
  | 0, src, lc, t, h, ht => by simp [scanLoop] at h; subst h; cases ht
  | fuel+1, [], lc, t, h, ht => by simp [scanLoop] at h; subst h; cases ht
  | fuel+1, c :: cs, lc, t, h, ht => by
    simp only [scanLoop] at h
    cases hm : matchToken (c :: cs) with
    | none =>
      rw [hm] at h; simp at h
      rcases h with rfl | rfl <;> cases ht
    | some p =>
      obtain ⟨tt, n⟩ := p
      rw [hm] at h
      simp only at h
      split at h
      · exact scanLoop_types fuel _ _ t h ht
      · rcases List.mem_cons.mp h with rfl | h
        · simp only at ht
          subst ht
          obtain ⟨h1, h2⟩ := matchToken_type _ n hm
          have : (n == 0) = false := by simpa using h2
          simpa [this] using h1
        · exact scanLoop_types fuel _ _ t h ht

/-- the initial parser state over the scanner's output is well formed -/
theorem wf_initial (env : Env) (src : Src) (hn : env.nlines = (src.filter (· == 10)).length + 1) :
    WF env { rest := scan src, stack := [] } := by
  obtain ⟨ts, eof, h1, h2, h3, _⟩ := C12_scan_shape (src.length + 1) src (1, 1)
  refine ⟨?_, ?_, by simp, ?_, by simp⟩
  · intro t ht
    simp only [stream, List.nil_append] at ht
    rw [hn]; exact C12_token_line_in_range src t ht
  · refine ⟨ts, eof, by simp [stream, scan, h1], by simpa [isEof] using h2, ?_⟩
    intro t ht
    have := h3 t ht
    simpa [isEof] using this
  · intro t ht htt
    simp only [stream, List.nil_append] at ht
    exact scanLoop_types _ _ _ t ht htt

/-- the `for` loop that skips trailing end-of-lines -/
theorem skipEols_good (env : Env) (hcap : 3 < env.stackSize) : ∀ (f : Nat) (s : PS), WF env s → Fuel 0 f s →
    (∃ t, skipEols env f s = .diag t) ∨ (∃ tok s', skipEols env f s = .ok () tok s' ∧ WF env s' ∧ TokOk env tok)
  | 0, s, hw, hf => (fuel_zero_absurd env hw hf).elim
  | f+1, s, hw, hf => by
    simp only [skipEols]
    have hp := parseToken_spec env hcap TT.eol none s hw
    generalize parseToken env TT.eol none s = r at hp ⊢
    cases hp with
    | diag t => exact Or.inl ⟨t, rfl⟩
    | no t s1 h1 h2 h3 h5 => exact Or.inr ⟨_, s1, rfl, h3, h5⟩
    | ok t s1 h1 h2 h3 h4 h5 _ =>
      simp only
      obtain ⟨hw1, hlen⟩ := after_token env s s1 t _ (by decide) hw h1 h2 h3 h4
      exact skipEols_good env hcap f s1 hw1 (by unfold Fuel at hf ⊢; omega)

/-- **ParseSource is total** (model): value or located diagnostic, for every token stream that
    satisfies the scanner's guarantees -/
theorem parseTokens_total (env : Env) (hcap : 3 < env.stackSize) (hset : ∀ items, (env.mkSet items).isSome)
    (toks : List Token) (hw : WF env { rest := toks, stack := [] }) :
    (parseTokens env (8 * toks.length + 16) toks).acceptable = true := by
  unfold parseTokens
  have hlen : (stream { rest := toks, stack := [] }).length = toks.length := by simp [stream]
  have hc := (ih_all env hcap hset (8 * toks.length + 16)).collection _ hw (by unfold Fuel; rw [hlen]; omega)
  generalize parseCollection env (8 * toks.length + 16) { rest := toks, stack := [] } = r at hc ⊢
  cases hc with
  | diag t => rfl
  | no tok s' _ _ _ ht =>
    simp only
    obtain ⟨t, h⟩ := fail_diag env (α := Unit) tok ht
    rw [h]; rfl
  | ok v tok s1 hw1 hpre ht =>
    simp only
    have hl := stream_len_of_pre hpre
    rcases skipEols_good env hcap (8 * toks.length + 16) s1 hw1 (by unfold Fuel; rw [hlen] at hl; omega) with ⟨t, h⟩ | ⟨tok2, s2, h, hw2, ht2⟩
    · rw [h]; rfl
    · rw [h]
      simp only
      have hp := parseToken_spec env hcap TT.eof none s2 hw2
      generalize parseToken env TT.eof none s2 = r2 at hp ⊢
      cases hp with
      | diag t => rfl
      | ok t s3 _ _ _ _ _ _ => rfl
      | no t s3 _ _ _ h5 =>
        simp only
        obtain ⟨t', h⟩ := fail_diag env (α := Unit) (some t) h5
        rw [h]; rfl

/-- **C12: ParseSource is total**, for every source string, every conversion oracle and every
    push-back capacity ≥ 4 (the real one is `Generated.parserStackSize`, see `Tie.parser_sizes`) -/
theorem C12_parse_total (src : Src) (stackSize : Nat) (hcap : 3 < stackSize) (conv : Token → Option Val)
    (mkSet : List Val → Option Val) (hset : ∀ items, (mkSet items).isSome) :
    (parseTokens { stackSize := stackSize, nlines := (src.filter (· == 10)).length + 1, conv := conv, mkSet := mkSet }
      (8 * (scan src).length + 16) (scan src)).acceptable = true :=
  parseTokens_total _ hcap hset (scan src) (wf_initial _ src rfl)

/-- the statement of `Props/C12.lean`, now a theorem -/
theorem C12_parse_total_statement_holds : C12_parse_total_statement := by
  intro src conv mkSet hset
  exact C12_parse_total src 4 (by decide) conv mkSet hset

/-- the push-back stack never needs more than three slots: capacity 4 is never reached -/
theorem C12_pushback_bounded (env : Env) (s : PS) (h : WF env s) : s.stack.length ≤ 3 := h.stk

end CM
