/- merge sort: permutation for every ranker, ascending for a total preorder;
   reverse = List.reverse; shuffle is a permutation -/
import CollectionModel.Model.Sorter
namespace CM
namespace Sorter

variable {α : Type}

theorem TotalPreorder.lt_iff_gt {rank : α → α → Rank} (h : TotalPreorder rank) (a b : α) :
    rank a b = .lt ↔ rank b a = .gt := by
  rw [h.mirror a b]; cases rank a b <;> simp [Rank.flip]

theorem merge_perm (rank : α → α → Rank) : ∀ l r, (merge rank l r).Perm (l ++ r)
  | [], r => by simp [merge]
  | a :: l, [] => by simp [merge]
  | a :: l, b :: r => by
    simp only [merge]
    split
    · exact (merge_perm rank l (b :: r)).cons a
    · have h := (merge_perm rank (a :: l) r).cons b
      refine h.trans ?_
      simpa using (List.perm_middle (a := b) (l₁ := a :: l) (l₂ := r)).symm

theorem mergePass_perm (rank : α → α → Rank) (w : Nat) : ∀ f xs, (mergePass rank w f xs).Perm xs
  | 0, xs => by simp [mergePass]
  | f+1, [] => by simp [mergePass]
  | f+1, x :: xs => by
    simp only [mergePass]
    have h1 := merge_perm rank ((x :: xs).take w) (((x :: xs).drop w).take w)
    have h2 := mergePass_perm rank w f ((x :: xs).drop (2*w))
    have h3 : (x :: xs) = (x :: xs).take w ++ (((x :: xs).drop w).take w ++ (x :: xs).drop (2*w)) := by
      have : (x :: xs).drop (2*w) = ((x :: xs).drop w).drop w := by
        rw [List.drop_drop]; congr 1; omega
      rw [this, List.take_append_drop, List.take_append_drop]
    conv => rhs; rw [h3]
    rw [← List.append_assoc]
    exact h1.append h2

theorem sortLoop_perm (rank : α → α → Rank) : ∀ f w xs, (sortLoop rank f w xs).Perm xs
  | 0, _, xs => by simp [sortLoop]
  | f+1, w, xs => by
    simp only [sortLoop]
    split
    · exact (sortLoop_perm rank f (2*w) _).trans (mergePass_perm rank w _ xs)
    · exact List.Perm.refl _

theorem sortValues_perm (rank : α → α → Rank) (xs : List α) : (sortValues rank xs).Perm xs :=
  sortLoop_perm rank _ _ _

/-- ascending: no earlier value ranks Greater than a later one -/
def Asc (rank : α → α → Rank) (l : List α) : Prop := l.Pairwise (fun a b => rank a b ≠ .gt)

theorem merge_asc (rank : α → α → Rank) (h : TotalPreorder rank) :
    ∀ l r, Asc rank l → Asc rank r → Asc rank (merge rank l r)
  | [], r, _, hr => by simpa [merge] using hr
  | a :: l, [], hl, _ => by simpa [merge] using hl
  | a :: l, b :: r, hl, hr => by
    simp only [merge]
    have hl' := List.pairwise_cons.mp hl
    have hr' := List.pairwise_cons.mp hr
    split
    · rename_i hab
      have ih := merge_asc rank h l (b :: r) hl'.2 hr
      refine List.pairwise_cons.mpr ⟨?_, ih⟩
      intro x hx
      have hx' := (merge_perm rank l (b :: r)).mem_iff.mp hx
      rcases List.mem_append.mp hx' with hx1 | hx1
      · exact hl'.1 x hx1
      · rcases List.mem_cons.mp hx1 with rfl | hx2
        · rw [hab]; decide
        · exact h.trans a b x (by rw [hab]; decide) (hr'.1 x hx2)
    · rename_i hab
      have ih := merge_asc rank h (a :: l) r hl hr'.2
      refine List.pairwise_cons.mpr ⟨?_, ih⟩
      intro x hx
      have hx' := (merge_perm rank (a :: l) r).mem_iff.mp hx
      have hba : rank b a ≠ .gt := by
        intro hg; exact hab ((TotalPreorder.lt_iff_gt h a b).mpr hg)
      rcases List.mem_append.mp hx' with hx1 | hx1
      · rcases List.mem_cons.mp hx1 with rfl | hx2
        · exact hba
        · exact h.trans b a x hba (hl'.1 x hx2)
      · exact hr'.1 x hx1

theorem merge_length (rank : α → α → Rank) : ∀ l r, (merge rank l r).length = l.length + r.length :=
  fun l r => by simpa using (merge_perm rank l r).length_eq

/-- all aligned chunks of width w are ascending -/
def ChunkAsc (rank : α → α → Rank) (w : Nat) (xs : List α) : Prop :=
  ∀ k, Asc rank ((xs.drop (k * w)).take w)

theorem chunkAsc_one (rank : α → α → Rank) (xs : List α) : ChunkAsc rank 1 xs := by
  intro k
  have : ((xs.drop (k*1)).take 1).length ≤ 1 := by simp; omega
  match h : (xs.drop (k*1)).take 1, this with
  | [], _ => simp [Asc]
  | [a], _ => simp [Asc]
  | _ :: _ :: _, hl => simp at hl

theorem asc_of_chunk (rank : α → α → Rank) (w : Nat) (xs : List α) (hw : xs.length ≤ w)
    (h : ChunkAsc rank w xs) : Asc rank xs := by
  have := h 0
  simpa [List.take_of_length_le hw] using this

theorem mergePass_length (rank : α → α → Rank) (w : Nat) (f : Nat) (xs : List α) :
    (mergePass rank w f xs).length = xs.length := (mergePass_perm rank w f xs).length_eq

theorem mergePass_drop (rank : α → α → Rank) (w : Nat) (hw : 0 < w) :
    ∀ f xs, xs.length ≤ f →
      (mergePass rank w f xs).drop (2*w) = mergePass rank w (f-1) (xs.drop (2*w))
  | 0, xs, h => by
    have : xs = [] := List.eq_nil_of_length_eq_zero (by omega)
    subst this; simp [mergePass]
  | f+1, [], _ => by
    cases f <;> simp [mergePass]
  | f+1, x :: xs, h => by
    simp only [mergePass, Nat.add_sub_cancel]
    have hlen : (merge rank ((x :: xs).take w) (((x :: xs).drop w).take w)).length
        = min (2*w) (x :: xs).length := by
      rw [merge_length]; simp only [List.length_take, List.length_drop]; omega
    by_cases hc : 2*w ≤ (x :: xs).length
    · have : (merge rank ((x :: xs).take w) (((x :: xs).drop w).take w)).length = 2*w := by
        rw [hlen]; omega
      rw [List.drop_append_of_le_length (by omega), List.drop_of_length_le (by omega)]
      simp
    · have hnil : (x :: xs).drop (2*w) = [] := List.drop_of_length_le (by omega)
      rw [hnil]
      have : mergePass rank w f ([] : List α) = [] := by cases f <;> simp [mergePass]
      rw [this]
      cases f <;> simp <;> (rw [hlen]; omega)

theorem mergePass_take (rank : α → α → Rank) (w : Nat) :
    ∀ f xs, xs ≠ [] → 0 < f →
      (mergePass rank w f xs).take (2*w) = merge rank (xs.take w) ((xs.drop w).take w)
  | 0, _, _, h => by omega
  | f+1, [], h, _ => absurd rfl h
  | f+1, x :: xs, _, _ => by
    simp only [mergePass]
    have hlen : (merge rank ((x :: xs).take w) (((x :: xs).drop w).take w)).length
        = min (2*w) (x :: xs).length := by
      rw [merge_length]; simp only [List.length_take, List.length_drop]; omega
    by_cases hc : 2*w ≤ (x :: xs).length
    · rw [List.take_append_of_le_length (by omega), List.take_of_length_le (by omega)]
    · have hnil : (x :: xs).drop (2*w) = [] := List.drop_of_length_le (by omega)
      rw [hnil]
      have : mergePass rank w f ([] : List α) = [] := by cases f <;> simp [mergePass]
      rw [this, List.append_nil, List.take_of_length_le (by omega)]

theorem mergePass_chunk (rank : α → α → Rank) (hr : TotalPreorder rank) (w : Nat) (hw : 0 < w) :
    ∀ k f xs, xs.length ≤ f → ChunkAsc rank w xs →
      Asc rank (((mergePass rank w f xs).drop (k * (2*w))).take (2*w))
  | 0, f, xs, hf, h => by
    simp only [Nat.zero_mul, List.drop_zero]
    by_cases hx : xs = []
    · subst hx; cases f <;> simp [mergePass, Asc]
    · have hf0 : 0 < f := by
        cases xs with
        | nil => exact absurd rfl hx
        | cons _ _ => simp at hf; omega
      rw [mergePass_take rank w f xs hx hf0]
      apply merge_asc rank hr
      · simpa using h 0
      · have := h 1; simpa using this
  | k+1, f, xs, hf, h => by
    have : (k+1) * (2*w) = 2*w + k * (2*w) := by rw [Nat.add_mul]; omega
    rw [this, ← List.drop_drop, mergePass_drop rank w hw f xs hf]
    apply mergePass_chunk rank hr w hw k (f-1) (xs.drop (2*w))
    · simp; omega
    · intro j
      have := h (j + 2)
      rw [List.drop_drop]
      have e : 2*w + j*w = (j+2)*w := by rw [Nat.add_mul]; omega
      rw [e]; exact this

theorem mergePass_chunkAsc (rank : α → α → Rank) (hr : TotalPreorder rank) (w : Nat) (hw : 0 < w)
    (f : Nat) (xs : List α) (hf : xs.length ≤ f) (h : ChunkAsc rank w xs) :
    ChunkAsc rank (2*w) (mergePass rank w f xs) :=
  fun k => mergePass_chunk rank hr w hw k f xs hf h

theorem sortLoop_asc (rank : α → α → Rank) (hr : TotalPreorder rank) :
    ∀ f w xs, 0 < w → xs.length ≤ w * 2^f → ChunkAsc rank w xs → Asc rank (sortLoop rank f w xs)
  | 0, w, xs, _, hlen, h => by
    simp only [sortLoop]
    exact asc_of_chunk rank w xs (by simpa using hlen) h
  | f+1, w, xs, hw, hlen, h => by
    simp only [sortLoop]
    split
    · apply sortLoop_asc rank hr f (2*w) _ (by omega)
      · rw [mergePass_length]; rw [Nat.pow_succ] at hlen;
        calc xs.length ≤ w * (2^f * 2) := hlen
          _ = 2*w*2^f := by rw [Nat.mul_comm (2^f) 2, ← Nat.mul_assoc, Nat.mul_comm w 2]
      · exact mergePass_chunkAsc rank hr w hw _ xs (Nat.le_refl _) h
    · rename_i hnot
      exact asc_of_chunk rank w xs (by omega) h

theorem sortValues_asc (rank : α → α → Rank) (hr : TotalPreorder rank) (xs : List α) :
    Asc rank (sortValues rank xs) := by
  apply sortLoop_asc rank hr _ 1 xs (by decide)
  · simp; exact Nat.le_of_lt (Nat.lt_two_pow_self)
  · exact chunkAsc_one rank xs

end Sorter
end CM

namespace CM
namespace Sorter
variable {α : Type} [Inhabited α]

theorem swap_length (l : List α) (i j : Nat) : (swap l i j).length = l.length := by
  simp [swap]

theorem swap_getD (l : List α) (i j m : Nat) (hi : i < l.length) (hj : j < l.length) :
    (swap l i j).getD m default =
      if m = j then l.getD i default else if m = i then l.getD j default else l.getD m default := by
  unfold swap
  simp only [List.getD_eq_getElem?_getD, List.getElem?_set]
  by_cases h1 : j = m
  · subst h1; simp [hj]
  · have h1' : ¬ m = j := fun h => h1 h.symm
    simp only [h1, h1', if_false]
    by_cases h2 : i = m
    · subst h2; simp [hi]
    · have h2' : ¬ m = i := fun h => h2 h.symm
      simp [h2, h2']

theorem reverseLoop_length : ∀ (n k : Nat) (l : List α), (reverseLoop n k l).length = l.length
  | 0, _, _ => by simp [reverseLoop]
  | n+1, k, l => by simp [reverseLoop, reverseLoop_length n, swap_length]

theorem reverseLoop_getD : ∀ (n k : Nat) (l : List α), 2 * (k + n) ≤ l.length → ∀ i, i < l.length →
    (reverseLoop n k l).getD i default =
      if (k ≤ i ∧ i < k + n) ∨ (l.length - k - n ≤ i ∧ i < l.length - k)
      then l.getD (l.length - 1 - i) default else l.getD i default
  | 0, k, l, _, i, _ => by
    have : ¬ ((k ≤ i ∧ i < k + 0) ∨ (l.length - k - 0 ≤ i ∧ i < l.length - k)) := by omega
    simp only [reverseLoop, this, if_false]
  | n+1, k, l, h, i, hi => by
    simp only [reverseLoop]
    have hk : k < l.length := by omega
    have hj : l.length - k - 1 < l.length := by omega
    rw [reverseLoop_getD n (k+1) _ (by rw [swap_length]; omega) i (by rw [swap_length]; exact hi)]
    rw [swap_length]
    rw [swap_getD l k _ _ hk hj, swap_getD l k _ _ hk hj]
    by_cases c1 : (k + 1 ≤ i ∧ i < k + 1 + n) ∨ (l.length - (k + 1) - n ≤ i ∧ i < l.length - (k + 1))
    · have c2 : (k ≤ i ∧ i < k + (n + 1)) ∨ (l.length - k - (n + 1) ≤ i ∧ i < l.length - k) := by omega
      have a1 : ¬ l.length - 1 - i = l.length - k - 1 := by omega
      have a2 : ¬ l.length - 1 - i = k := by omega
      simp only [c1, c2, if_true, a1, a2, if_false]
    · simp only [c1, if_false]
      by_cases e1 : i = l.length - k - 1
      · have c2 : (k ≤ i ∧ i < k + (n + 1)) ∨ (l.length - k - (n + 1) ≤ i ∧ i < l.length - k) := by omega
        simp only [e1, if_true]
        subst e1
        have : l.length - 1 - (l.length - k - 1) = k := by omega
        simp only [if_true, c2, this]
      · by_cases e2 : i = k
        · have c2 : (k ≤ i ∧ i < k + (n + 1)) ∨ (l.length - k - (n + 1) ≤ i ∧ i < l.length - k) := by omega
          subst e2
          have : l.length - 1 - i = l.length - i - 1 := by omega
          simp only [e1, if_false, if_true, c2, this]
        · have c2 : ¬ ((k ≤ i ∧ i < k + (n + 1)) ∨ (l.length - k - (n + 1) ≤ i ∧ i < l.length - k)) := by omega
          simp only [e1, e2, c2, if_false]

theorem reverseValues_eq (l : List α) : reverseValues l = l.reverse := by
  apply List.ext_getElem
  · simp [reverseValues, reverseLoop_length]
  · intro i h1 h2
    have hi : i < l.length := by simpa [reverseValues, reverseLoop_length] using h1
    have key := reverseLoop_getD (l.length / 2) 0 l (by omega) i hi
    rw [List.getElem_reverse]
    have e1 : (reverseValues l)[i] = (reverseValues l).getD i default := by
      simp [List.getD_eq_getElem?_getD, h1]
    rw [e1]; unfold reverseValues; rw [key]
    have hm : l.length - 1 - i < l.length := by omega
    by_cases c : (0 ≤ i ∧ i < 0 + l.length / 2) ∨ (l.length - 0 - l.length / 2 ≤ i ∧ i < l.length - 0)
    · rw [if_pos c]; simp [List.getD_eq_getElem?_getD, hm]
    · have : l.length - 1 - i = i := by omega
      rw [if_neg c]; simp [List.getD_eq_getElem?_getD, hi, this]

end Sorter
end CM

namespace CM
namespace Sorter
variable {α : Type} [Inhabited α]

theorem swap_perm (l : List α) (i j : Nat) (hi : i < l.length) (hj : j < l.length) :
    (swap l i j).Perm l := by
  unfold swap
  have e1 : l.getD j default = l[j] := by simp [List.getD_eq_getElem?_getD, hj]
  have e2 : l.getD i default = l[i] := by simp [List.getD_eq_getElem?_getD, hi]
  rw [e1, e2]
  exact List.set_set_perm hi hj

/-- `ShuffleValues` yields a permutation whenever the random indices are in
    range (`randomizeIndex` returns values in `[0, size)`) -/
theorem shuffleLoop_perm : ∀ (rs : List Nat) (i : Nat) (l : List α),
    i + rs.length ≤ l.length → (∀ r ∈ rs, r < l.length) → (shuffleLoop i rs l).Perm l
  | [], _, l, _, _ => by simp [shuffleLoop]
  | r :: rs, i, l, h1, h2 => by
    simp only [shuffleLoop]
    have hr : r < l.length := h2 r (by simp)
    have hi : i < l.length := by simp at h1; omega
    refine (shuffleLoop_perm rs (i+1) (swap l i r) ?_ ?_).trans (swap_perm l i r hi hr)
    · rw [swap_length]; simp at h1; omega
    · intro r' hr'; rw [swap_length]; exact h2 r' (by simp [hr'])

end Sorter
end CM
