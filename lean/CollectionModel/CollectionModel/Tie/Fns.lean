/-
  T3 obligations: the integer functions TRANSLATED from the current Go source
  (Generated/Fns.lean, rewritten by /verif/extract on every run) are the model's
  functions, for all integers.  A source change that alters one of them breaks
  the corresponding theorem here.
-/
import CollectionModel.Generated.Fns
import CollectionModel.Model.Seq
import CollectionModel.Model.Iterator
namespace CM
namespace Tie

/-- `array_.toZeroBased` as written in array.go = `Seq.toZeroBased` -/
theorem toZeroBased_tie (va : Int → Int) (n : Nat) (slot index : Int) (hn : IsInt64 n) (hi : IsInt64 index) :
    Generated.toZeroBased va n slot index = (Seq.toZeroBased n index).map (fun (p : Nat) => ((p : Int), slot)) := by
  unfold Generated.toZeroBased Seq.toZeroBased
  have eneg : w64 (-(n : Int)) = -(n : Int) := w64_id (by unfold IsInt64 at *; omega)
  simp only [eneg]
  by_cases h0 : n = 0
  · subst h0; simp [Except.map]
  · have hn : ¬ ((n : Int) == 0) = true := by simp; omega
    simp only [hn, h0, if_false, Bool.false_eq_true]
    by_cases h1 : index = 0
    · subst h1; simp [Except.map]
    · have : ¬ (index == 0) = true := by simpa using h1
      simp only [this, h1, if_false, Bool.false_eq_true]
      by_cases h2 : index < -(n : Int) ∨ index > (n : Int)
      · have : (decide (index < -(n : Int)) || decide (index > (n : Int))) = true := by
          simp only [Bool.or_eq_true, decide_eq_true_eq]; exact h2
        simp [this, h2, Except.map]
      · have : ¬ (decide (index < -(n : Int)) || decide (index > (n : Int))) = true := by
          simp only [Bool.or_eq_true, decide_eq_true_eq]; exact h2
        simp only [this, h2, if_false, Bool.false_eq_true]
        by_cases h3 : index < 0
        · simp only [h3, decide_true, if_true, Except.map]
          rw [w64_id (by unfold IsInt64 at *; omega)]
          congr 2; omega
        · have h4 : index > 0 := by omega
          simp only [h3, h4, decide_false, decide_true, if_true, if_false, Bool.false_eq_true, Except.map]
          rw [w64_id (by unfold IsInt64 at *; omega)]
          congr 2; omega

/-- `list_.toNormalized` as written in list.go = `Seq.toNormalized` -/
theorem toNormalized_tie (va : Int → Int) (n : Nat) (slot index : Int) (hn : IsInt64 n) (hi : IsInt64 index) :
    Generated.toNormalized va n slot index = (Seq.toNormalized n index).map (fun (p : Int) => (p, slot)) := by
  unfold Generated.toNormalized Seq.toNormalized
  have eneg : w64 (-(n : Int)) = -(n : Int) := w64_id (by unfold IsInt64 at *; omega)
  simp only [eneg]
  by_cases h0 : n = 0
  · subst h0; simp [Except.map]
  · have hn : ¬ ((n : Int) == 0) = true := by simp; omega
    simp only [hn, h0, if_false, Bool.false_eq_true]
    by_cases h1 : index = 0
    · subst h1; simp [Except.map]
    · have : ¬ (index == 0) = true := by simpa using h1
      simp only [this, h1, if_false, Bool.false_eq_true]
      by_cases h2 : index < -(n : Int) ∨ index > (n : Int)
      · have : (decide (index < -(n : Int)) || decide (index > (n : Int))) = true := by
          simp only [Bool.or_eq_true, decide_eq_true_eq]; exact h2
        simp [this, h2, Except.map]
      · have : ¬ (decide (index < -(n : Int)) || decide (index > (n : Int))) = true := by
          simp only [Bool.or_eq_true, decide_eq_true_eq]; exact h2
        simp only [this, h2, if_false, Bool.false_eq_true]
        by_cases h3 : index < 0
        · have e1 : w64 (index + (n : Int)) = index + n := w64_id (by unfold IsInt64 at *; omega)
          have e2 : w64 (index + (n : Int) + 1) = index + n + 1 := w64_id (by unfold IsInt64 at *; omega)
          simp [h3, Except.map, e1, e2]
        · have h4 : index > 0 := by omega
          simp [h3, h4, Except.map]

/-! ### iterator: every move as written in iterator.go = the model's `Iter.step` -/
section
variable (s : Iter.St Int)

/-- `values_[k]` of the snapshot -/
def va (s : Iter.St Int) (k : Int) : Int := s.values.getD k.toNat default

theorem iterGetNext_tie (hs : IsInt64 (Iter.size s)) (hp : IsInt64 s.slot) :
    Generated.iterGetNext (va s) (Iter.size s) s.slot =
      .ok (match (Iter.step s .getNext).2 with | .val a => a | _ => 0, (Iter.step s .getNext).1.slot) := by
  unfold Generated.iterGetNext Iter.step
  by_cases h : s.slot < Iter.size s
  · have e1 : w64 (s.slot + 1) = s.slot + 1 := w64_id (by unfold IsInt64 at *; omega)
    have e2 : w64 s.slot = s.slot := w64_id hp
    simp [h, va, Iter.at1, e1, e2]
  · simp [h]

theorem iterGetPrevious_tie (hp : IsInt64 s.slot) :
    Generated.iterGetPrevious (va s) (Iter.size s) s.slot =
      .ok (match (Iter.step s .getPrevious).2 with | .val a => a | _ => 0, (Iter.step s .getPrevious).1.slot) := by
  unfold Generated.iterGetPrevious Iter.step
  by_cases h : s.slot > 0
  · have e1 : w64 (s.slot - 1) = s.slot - 1 := w64_id (by unfold IsInt64 at *; omega)
    simp [h, va, Iter.at1, e1]
  · simp [h]

theorem iterHasNext_tie :
    Generated.iterHasNext (va s) (Iter.size s) s.slot = .ok (decide (s.slot < Iter.size s), s.slot) ∧
    (Iter.step s .hasNext) = (s, .bool (decide (s.slot < Iter.size s))) := by
  simp [Generated.iterHasNext, Iter.step]

theorem iterHasPrevious_tie :
    Generated.iterHasPrevious (va s) (Iter.size s) s.slot = .ok (decide (s.slot > 0), s.slot) ∧
    (Iter.step s .hasPrevious) = (s, .bool (decide (s.slot > 0))) := by
  simp [Generated.iterHasPrevious, Iter.step]

theorem iterToStart_tie :
    Generated.iterToStart (va s) (Iter.size s) s.slot = .ok (0, (Iter.step s .toStart).1.slot) := by
  simp [Generated.iterToStart, Iter.step]

theorem iterToEnd_tie :
    Generated.iterToEnd (va s) (Iter.size s) s.slot = .ok (0, (Iter.step s .toEnd).1.slot) := by
  simp [Generated.iterToEnd, Iter.step]

theorem iterToSlot_tie (k : Int) (hs : IsInt64 (Iter.size s)) (hk : IsInt64 k) :
    Generated.iterToSlot (va s) (Iter.size s) s.slot k = .ok (0, (Iter.step s (.toSlot k)).1.slot) := by
  simp only [Generated.iterToSlot, Iter.step, Iter.toSlot]
  have hsz : (0 : Int) ≤ Iter.size s := by simp [Iter.size]
  generalize Iter.size s = n at hsz hs ⊢
  have eneg : w64 (-n) = -n := w64_id (by unfold IsInt64 at *; omega)
  simp only [eneg, decide_eq_true_eq]
  unfold IsInt64 at hs hk
  simp only [w64]
  repeat' split
  all_goals first
    | rfl
    | (simp only [Except.ok.injEq, Prod.mk.injEq, true_and]; omega)
    | omega

theorem iterIsEmpty_tie :
    Generated.iterIsEmpty (va s) (Iter.size s) s.slot = .ok (Iter.size s == 0, s.slot) ∧
    (Iter.step s .isEmpty) = (s, .bool (Iter.size s == 0)) := by
  simp [Generated.iterIsEmpty, Iter.step]

end
end Tie
end CM
