/-
  Basic vocabulary shared by every model: ranks, panic classes, outcomes.
  Core Lean only (no Mathlib) so that the driver links as a `lean_exe`.
-/
namespace CM

/-- `agent.Rank`: LesserRank / EqualRank / GreaterRank. -/
inductive Rank | lt | eq | gt
  deriving DecidableEq, Repr, Inhabited

def Rank.flip : Rank → Rank
  | .lt => .gt | .eq => .eq | .gt => .lt

@[simp] theorem Rank.flip_flip (r : Rank) : r.flip.flip = r := by cases r <;> rfl

def Rank.toString : Rank → String
  | .lt => "lt" | .eq => "eq" | .gt => "gt"

/-- How a Go call can fail.  `lib` = a panic raised by the library itself with a
    textual message (classified by the harness from the message prefix);
    `rt` = a Go runtime error (slice bounds, makeslice, nil dereference, failed
    type assertion, reflect misuse, send on closed channel). -/
inductive Panic
  | emptyIndex      -- "Cannot index an empty Array/List."
  | zeroIndex       -- "Indices must be positive or negative ordinals, not zero."
  | outOfRange      -- "The specified index is outside the allowed ranges ..."
  | slot            -- slot / range outside the sequence (added by the fixes)
  | stackFull | stackEmpty | capacity
  | depth           -- "The maximum traversal depth was exceeded"
  | syntax          -- located syntax diagnostic of the parser
  | lib             -- any other library panic
  | rt              -- Go runtime error
  deriving DecidableEq, Repr, Inhabited

/-- Go's `int` arithmetic on a 64-bit platform: the mathematical result wrapped into
    [-2^63, 2^63).  The functions translated from the source (Generated/Fns.lean) apply it to
    every `+`, `-`, `*` and negation; the tie theorems show that within the ranges the
    library guarantees the wrap never happens -/
def w64 (x : Int) : Int := (x + 9223372036854775808) % 18446744073709551616 - 9223372036854775808

/-- the range of a Go `int` -/
def IsInt64 (x : Int) : Prop := -9223372036854775808 ≤ x ∧ x < 9223372036854775808

theorem w64_id {x : Int} (h : IsInt64 x) : w64 x = x := by
  unfold w64; unfold IsInt64 at h; omega

def Panic.toString : Panic → String
  | .emptyIndex => "emptyIndex" | .zeroIndex => "zeroIndex" | .outOfRange => "outOfRange"
  | .slot => "slot" | .stackFull => "stackFull" | .stackEmpty => "stackEmpty"
  | .capacity => "capacity" | .depth => "depth" | .syntax => "syntax" | .lib => "lib" | .rt => "rt"

/-- Result of one modelled call: returned (new state, result), panicked (state
    left behind, class), or never returns. -/
inductive Outcome (σ ρ : Type)
  | ret   (s : σ) (r : ρ)
  | panic (s : σ) (c : Panic)
  | hang
  deriving Repr, DecidableEq

/-- A ranking function is a total preorder (three-valued comparison). -/
structure TotalPreorder {α : Type} (rank : α → α → Rank) : Prop where
  refl : ∀ a, rank a a = .eq
  mirror : ∀ a b, rank b a = (rank a b).flip
  trans : ∀ a b c, rank a b ≠ .gt → rank b c ≠ .gt → rank a c ≠ .gt

def rankInt (a b : Int) : Rank := if a < b then .lt else if b < a then .gt else .eq
def rankNat (a b : Nat) : Rank := if a < b then .lt else if b < a then .gt else .eq

theorem rankInt_total : TotalPreorder rankInt where
  refl a := by simp [rankInt]
  mirror a b := by
    unfold rankInt
    by_cases h1 : a < b <;> by_cases h2 : b < a <;> simp [h1, h2, Rank.flip] <;> omega
  trans a b c := by
    unfold rankInt
    by_cases h1 : a < b <;> by_cases h2 : b < a <;> by_cases h3 : b < c <;> by_cases h4 : c < b <;>
      by_cases h5 : a < c <;> by_cases h6 : c < a <;> simp [h1, h2, h3, h4, h5, h6] <;> omega

end CM

namespace CM

theorem TotalPreorder.comap {α β : Type} {rank : β → β → Rank} (h : TotalPreorder rank) (f : α → β) :
    TotalPreorder (fun a b => rank (f a) (f b)) where
  refl a := h.refl (f a)
  mirror a b := h.mirror (f a) (f b)
  trans a b c := h.trans (f a) (f b) (f c)

theorem TotalPreorder.reverse {α : Type} {rank : α → α → Rank} (h : TotalPreorder rank) :
    TotalPreorder (fun a b => rank b a) where
  refl a := h.refl a
  mirror a b := h.mirror b a
  trans a b c h1 h2 := h.trans c b a h2 h1

end CM
