/-
  Model of `queueClass_.Fork` (and the specification functions for Split / Join) as a
  network of ATOMIC bounded FIFO queues with close – the abstraction of a queue justified
  by C04 (each queue here has exactly one writer and one reader).  The helper goroutine's
  loop is followed statement by statement; the feeder and one reader per output are the
  environment; every interleaving is a path of `Step`.
-/
import CollectionModel.Model.Basic
namespace CM
namespace Pipes

/-- program counter of the Fork helper goroutine -/
inductive H (α : Type)
  | recv                      -- `input.RemoveHead()`
  | send (v : α) (k : Nat)    -- inside the `for iterator.HasNext()` loop: about to `output_k.AddValue(v)`
  | close (k : Nat)           -- after the input was closed: about to `output_k.CloseQueue()`
  | done                      -- `group.Done()`
  deriving Repr

structure FS (α : Type) where
  rest : List α               -- values the feeder has not added yet
  inq : List α                -- contents of the input queue
  inClosed : Bool
  h : H α
  buf : Nat → List α          -- contents of output queue k
  oclosed : Nat → Bool
  reads : Nat → List α        -- what reader k has received so far
  readerDone : Nat → Bool     -- reader k saw ok=false

def upd {β : Type} (f : Nat → β) (k : Nat) (b : β) : Nat → β := fun j => if j = k then b else f j

/-- one atomic step of the Fork network with fan-out `n` and capacity `cap` -/
inductive Step {α : Type} (n cap : Nat) : FS α → FS α → Prop
  | feed (s : FS α) (v : α) (r : List α) (h1 : s.rest = v :: r) (h2 : s.inq.length < cap) (h3 : s.inClosed = false) :
      Step n cap s { s with rest := r, inq := s.inq ++ [v] }
  | feedClose (s : FS α) (h1 : s.rest = []) (h3 : s.inClosed = false) :
      Step n cap s { s with inClosed := true }
  | hRecv (s : FS α) (v : α) (q : List α) (h1 : s.h = .recv) (h2 : s.inq = v :: q) :
      Step n cap s { s with inq := q, h := .send v 0 }
  | hRecvClosed (s : FS α) (h1 : s.h = .recv) (h2 : s.inq = []) (h3 : s.inClosed = true) :
      Step n cap s { s with h := .close 0 }
  | hSend (s : FS α) (v : α) (k : Nat) (h1 : s.h = .send v k) (hk : k < n) (h2 : (s.buf k).length < cap) (h3 : s.oclosed k = false) :
      Step n cap s { s with buf := upd s.buf k (s.buf k ++ [v]), h := if k + 1 < n then .send v (k + 1) else .recv }
  | hClose (s : FS α) (k : Nat) (h1 : s.h = .close k) (hk : k < n) :
      Step n cap s { s with oclosed := upd s.oclosed k true, h := if k + 1 < n then .close (k + 1) else .done }
  | read (s : FS α) (k : Nat) (v : α) (b : List α) (hk : k < n) (h1 : s.buf k = v :: b) (h2 : s.readerDone k = false) :
      Step n cap s { s with buf := upd s.buf k b, reads := upd s.reads k (s.reads k ++ [v]) }
  | readClosed (s : FS α) (k : Nat) (hk : k < n) (h1 : s.buf k = []) (h2 : s.oclosed k = true) (h3 : s.readerDone k = false) :
      Step n cap s { s with readerDone := upd s.readerDone k true }

def initFS {α : Type} (input : List α) : FS α :=
  { rest := input, inq := [], inClosed := false, h := .recv, buf := fun _ => [], oclosed := fun _ => false,
    reads := fun _ => [], readerDone := fun _ => false }

inductive Reach {α : Type} (n cap : Nat) (s0 : FS α) : FS α → Prop
  | init : Reach n cap s0 s0
  | step {s t} : Reach n cap s0 s → Step n cap s t → Reach n cap s0 t

/-- the value the helper is in the middle of distributing, as far as output `k` is concerned -/
def pend {α : Type} : H α → Nat → List α
  | .send v j, k => if j ≤ k then [v] else []
  | _, _ => []

/-- specification of Split: output `k` of `n` receives the values at positions ≡ k (mod n) -/
def splitSpec {α : Type} (n : Nat) (k : Nat) : Nat → List α → List α
  | _, [] => []
  | i, v :: vs => if i % n = k then v :: splitSpec n k (i + 1) vs else splitSpec n k (i + 1) vs

end Pipes
end CM
