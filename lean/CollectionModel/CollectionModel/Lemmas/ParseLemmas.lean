/-
  Invariants and primitive lemmas for the totality proof of the parser model (C12).
  The parser's state is viewed through its *virtual token stream* `stack ++ rest`:
  a failed alternative (`ok = false`) restores the stream exactly, a successful one
  consumes a prefix, the EOF sentinel is never consumed by anything but the final
  `parseToken(EOF)`, and the push-back stack never holds more than three tokens.
-/
import CollectionModel.Model.Cdcn.Parse
namespace CM
namespace Cdcn

def stream (s : PS) : List Token := s.stack ++ s.rest

def ctxNames : List (List Nat) :=
  ["Array", "Catalog", "List", "Map", "Queue", "Set", "Stack"].map (fun s => s.toList.map ch)

variable (env : Env)

/-- what holds of the parser state between any two parse methods -/
structure WF (s : PS) : Prop where
  lines : ∀ t ∈ stream s, 1 ≤ t.line ∧ t.line ≤ env.nlines
  sentinel : ∃ pre e, stream s = pre ++ [e] ∧ e.tt = .eof ∧ ∀ t ∈ pre, t.tt ≠ .eof
  noErr : ∀ t ∈ s.stack, t.tt ≠ .error
  types : ∀ t ∈ stream s, t.tt = .type → t.value ∈ ctxNames
  stk : s.stack.length ≤ 3

/-- the token returned next to a result is set and its line can be looked up -/
def TokOk (tok : Option Token) : Prop := ∃ t, tok = some t ∧ 1 ≤ t.line ∧ t.line ≤ env.nlines

theorem fail_diag {α : Type} (tok : Option Token) (h : TokOk env tok) : ∃ t, fail env (α := α) tok = .diag t := by
  obtain ⟨t, rfl, h1, h2⟩ := h
  exact ⟨t, by simp [fail, h1, h2]⟩

/-- `getNextToken` on a well-formed state: a token (never the error token) or its diagnostic -/
inductive GetNextSpec (s : PS) : PR Token → Prop
  | ok (t : Token) (s' : PS) (h1 : stream s = t :: stream s') (h2 : s'.stack.length = s.stack.length - 1)
      (h3 : t.tt ≠ .error) (h4 : s'.stack = s.stack.tail) (h5 : s'.rest = if s.stack = [] then s.rest.tail else s.rest) :
      GetNextSpec s (.ok t (some t) s')
  | diag (t : Token) : GetNextSpec s (.diag t)

theorem getNext_spec (s : PS) (h : WF env s) : GetNextSpec s (getNext env s) := by
  unfold getNext
  cases hs : s.stack with
  | cons t st =>
    simp only
    have hne : t.tt ≠ .error := h.noErr t (by simp [hs])
    exact GetNextSpec.ok t _ (by simp [stream, hs]) (by simp [hs]) hne (by simp [hs]) (by simp [hs])
  | nil =>
    simp only
    cases hr : s.rest with
    | nil =>
      obtain ⟨pre, e, he, _, _⟩ := h.sentinel
      simp [stream, hs, hr] at he
    | cons t r =>
      simp only
      by_cases ht : t.tt = .error
      · have hl := h.lines t (by simp [stream, hs, hr])
        simp only [ht, if_true, fail, hl.1, hl.2, and_self]
        exact GetNextSpec.diag t
      · simp only [ht, if_false]
        exact GetNextSpec.ok t _ (by simp [stream, hs, hr]) (by simp [hs]) ht (by simp [hs]) (by simp [hs, hr])

/-- consuming the first token of the stream keeps the state well formed, unless it was the EOF sentinel -/
theorem wf_consume (s s' : PS) (t : Token) (h : WF env s) (h1 : stream s = t :: stream s') (hne : t.tt ≠ .eof)
    (hst : ∀ x ∈ s'.stack, x ∈ s.stack) (hk : s'.stack.length ≤ 3) : WF env s' := by
  refine ⟨?_, ?_, ?_, ?_, hk⟩
  · intro x hx; exact h.lines x (by rw [h1]; simp [hx])
  · obtain ⟨pre, e, he, h2, h3⟩ := h.sentinel
    rw [h1] at he
    cases pre with
    | nil =>
      simp at he
      exact absurd (he.1 ▸ h2) hne
    | cons p pre' =>
      simp at he
      exact ⟨pre', e, he.2, h2, fun x hx => h3 x (by simp [hx])⟩
  · intro x hx; exact h.noErr x (hst x hx)
  · intro x hx; exact h.types x (by rw [h1]; simp [hx])

/-- pushing a token back in front of the stream -/
theorem wf_push (s : PS) (t : Token) (rest : List Token) (h : WF env s) (h1 : stream s = t :: rest)
    (s' : PS) (h2 : stream s' = rest) (hne : t.tt ≠ .error) (hno : ∀ x ∈ s'.stack, x.tt ≠ .error) (hk : s'.stack.length ≤ 2) :
    WF env { s' with stack := t :: s'.stack } := by
  have hs : stream { s' with stack := t :: s'.stack } = stream s := by
    rw [h1, ← h2]; simp [stream]
  refine ⟨by rw [hs]; exact h.lines, by rw [hs]; exact h.sentinel, ?_, by rw [hs]; exact h.types, by simp; omega⟩
  intro x hx
  simp at hx
  rcases hx with rfl | hx
  · exact hne
  · exact hno x hx


theorem putBack_ok {α : Type} (hcap : 3 < env.stackSize) (t : Token) (s : PS) (k : PS → PR α) (h : s.stack.length ≤ 3) :
    putBack env t s k = k { s with stack := t :: s.stack } := by
  unfold putBack
  have : ¬ s.stack.length = env.stackSize := by omega
  simp [this]

/-- `parseToken` on a well-formed state -/
inductive ParseTokenSpec (tt : TT) (s : PS) : PR (List Nat) → Prop
  | ok (t : Token) (s' : PS) (h1 : stream s = t :: stream s') (h2 : s'.stack.length = s.stack.length - 1)
      (h3 : t.tt = tt) (h4 : ∀ x ∈ s'.stack, x ∈ s.stack) (h5 : TokOk env (some t)) (h6 : t.tt ≠ .error) :
      ParseTokenSpec tt s (.ok t.value (some t) s')
  | no (t : Token) (s' : PS) (h1 : stream s' = stream s) (h2 : s'.stack.length = max s.stack.length 1)
      (h3 : WF env s') (h5 : TokOk env (some t)) : ParseTokenSpec tt s (.no (some t) s')
  | diag (t : Token) : ParseTokenSpec tt s (.diag t)

theorem parseToken_spec (hcap : 3 < env.stackSize) (tt : TT) (val : Option String) (s : PS) (h : WF env s) :
    ParseTokenSpec env tt s (parseToken env tt val s) := by
  unfold parseToken
  have hg := getNext_spec env s h
  generalize getNext env s = r at hg ⊢
  cases hg with
  | diag t => exact ParseTokenSpec.diag t
  | ok t s' h1 h2 h3 h4 h5 =>
    simp only
    have hmem : t ∈ stream s := by rw [h1]; simp
    have htok : TokOk env (some t) := ⟨t, rfl, h.lines t hmem⟩
    have hsub : ∀ x ∈ s'.stack, x ∈ s.stack := by
      intro x hx; rw [h4] at hx; exact List.mem_of_mem_tail hx
    generalize hcond : (t.tt == tt && (match val with | none => true | some v => t.value == v.toList.map ch)) = c
    cases c with
    | true =>
      simp only [if_true]
      have htt : t.tt = tt := by
        simp only [Bool.and_eq_true, beq_iff_eq] at hcond; exact hcond.1
      exact ParseTokenSpec.ok t s' h1 h2 htt hsub htok h3
    | false =>
      simp only [Bool.false_eq_true, if_false]
      have hk : s'.stack.length ≤ 2 := by have := h.stk; omega
      rw [putBack_ok env hcap t s' _ (by omega)]
      refine ParseTokenSpec.no t _ ?_ ?_ ?_ htok
      · rw [h1]; simp [stream]
      · simp only [List.length_cons, h2]; have := h.stk; omega
      · exact wf_push env s t (stream s') h h1 s' rfl h3 (fun x hx => h.noErr x (hsub x hx)) hk

/-- a successful `parseToken` of a type other than EOF leaves a well-formed state -/
theorem wf_after_token (s s' : PS) (t : Token) (h : WF env s) (h1 : stream s = t :: stream s')
    (h2 : s'.stack.length = s.stack.length - 1) (hne : t.tt ≠ .eof) (h4 : ∀ x ∈ s'.stack, x ∈ s.stack) : WF env s' :=
  wf_consume env s s' t h h1 hne h4 (by have := h.stk; omega)


/-- `parseIntrinsic` on a well-formed state: consumes exactly one literal token, or restores the stream -/
inductive IntrinsicSpec (s : PS) : PR Val → Prop
  | ok (v : Val) (t : Token) (s' : PS) (h1 : stream s = t :: stream s') (h2 : s'.stack.length = s.stack.length - 1)
      (hw : WF env s') (h5 : TokOk env (some t)) (h6 : t.tt ≠ .error) : IntrinsicSpec s (.ok v (some t) s')
  | no (tok : Option Token) (s' : PS) (h1 : stream s' = stream s) (h2 : s'.stack.length = max s.stack.length 1)
      (h3 : WF env s') (h5 : TokOk env tok) : IntrinsicSpec s (.no tok s')
  | diag (t : Token) : IntrinsicSpec s (.diag t)

theorem intrinsic_go_spec (hcap : 3 < env.stackSize) (s : PS) (h : WF env s) :
    ∀ (kinds : List TT) (cur : PS) (tok0 : Option Token), (∀ tt ∈ kinds, tt ≠ .eof) →
      ((cur = s ∧ kinds ≠ []) ∨ (WF env cur ∧ stream cur = stream s ∧ cur.stack.length = max s.stack.length 1 ∧ TokOk env tok0)) →
      IntrinsicSpec env s (parseIntrinsic.go env kinds cur tok0)
  | [], cur, tok0, _, hj => by
    rcases hj with ⟨_, hne⟩ | ⟨hw, hs, hk, ht⟩
    · exact absurd rfl hne
    · simp only [parseIntrinsic.go]
      exact IntrinsicSpec.no tok0 cur hs hk hw ht
  | tt :: rest, cur, tok0, hk, hj => by
    have hcur : WF env cur ∧ stream cur = stream s ∧ (cur.stack.length = s.stack.length ∨ cur.stack.length = max s.stack.length 1) := by
      rcases hj with ⟨rfl, _⟩ | ⟨hw, hs, hl, _⟩
      · exact ⟨h, rfl, Or.inl rfl⟩
      · exact ⟨hw, hs, Or.inr hl⟩
    obtain ⟨hw, hs, hl⟩ := hcur
    simp only [parseIntrinsic.go]
    have hp := parseToken_spec env hcap tt none cur hw
    generalize parseToken env tt none cur = r at hp ⊢
    cases hp with
    | diag t => exact IntrinsicSpec.diag t
    | ok t s' h1 h2 h3 h4 h5 h6 =>
      simp only
      have hne : t.tt ≠ .eof := by rw [h3]; exact hk tt (by simp)
      have hw' := wf_after_token env cur s' t hw h1 h2 hne h4
      cases hc : env.conv t with
      | some v =>
        simp only
        refine IntrinsicSpec.ok v t s' (by rw [← hs, h1]) ?_ hw' h5 h6
        rcases hl with hl | hl <;> rw [h2, hl] <;> omega
      | none =>
        simp only
        obtain ⟨t', ht'⟩ := fail_diag env (α := Val) (some t) h5
        rw [ht']; exact IntrinsicSpec.diag t'
    | no t s' h1 h2 h3 h5 =>
      simp only
      apply intrinsic_go_spec hcap s h rest s' (some t) (fun x hx => hk x (by simp [hx]))
      refine Or.inr ⟨h3, by rw [h1, hs], ?_, h5⟩
      rcases hl with hl | hl <;> rw [h2, hl] <;> omega

theorem parseIntrinsic_spec (hcap : 3 < env.stackSize) (s : PS) (h : WF env s) :
    IntrinsicSpec env s (parseIntrinsic env s) := by
  unfold parseIntrinsic
  exact intrinsic_go_spec env hcap s h _ s none (by intro tt htt; simp at htt; rcases htt with h | h | h | h | h | h | h | h <;> subst h <;> decide)
    (Or.inl ⟨rfl, by simp⟩)

/-- outcome of a parse method started in state `s`; `d` bounds how many tokens a failing
    alternative may have read ahead and pushed back -/
inductive Post {α : Type} (d : Nat) (s : PS) : PR α → Prop
  | ok (a : α) (tok : Option Token) (s' : PS) (hw : WF env s') (hpre : ∃ pre, stream s = pre ++ stream s')
      (ht : TokOk env tok) : Post d s (.ok a tok s')
  | no (tok : Option Token) (s' : PS) (hw : WF env s') (hs : stream s' = stream s)
      (hk : s'.stack.length ≤ max s.stack.length d) (ht : TokOk env tok) : Post d s (.no tok s')
  | diag (t : Token) : Post d s (.diag t)

/-- the same outcome seen from an earlier state with the same stream -/
theorem Post.of_same {α : Type} {d d' : Nat} {s s' : PS} {r : PR α} (hs : stream s' = stream s)
    (hk : s'.stack.length ≤ max s.stack.length d) (hd : d' ≤ d) (h : Post env d' s' r) : Post env d s r := by
  cases h with
  | ok a tok s'' hw hpre ht => exact Post.ok a tok s'' hw (by rw [← hs]; exact hpre) ht
  | no tok s'' hw hs' hk' ht => exact Post.no tok s'' hw (by rw [hs', hs]) (by omega) ht
  | diag t => exact Post.diag t

/-- enough fuel for a method with offset `off` in state `s` -/
def Fuel (off f : Nat) (s : PS) : Prop := 8 * (stream s).length + off ≤ f

theorem stream_len_of_pre {s s' : PS} (h : ∃ pre, stream s = pre ++ stream s') : (stream s').length ≤ (stream s).length := by
  obtain ⟨pre, hp⟩ := h; rw [hp]; simp

theorem stream_len_cons {s s' : PS} {t : Token} (h : stream s = t :: stream s') : (stream s).length = (stream s').length + 1 := by
  rw [h]; simp

end Cdcn
end CM
