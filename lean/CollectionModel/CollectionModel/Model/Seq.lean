/-
  Model of `collection/array.go` (array_) and `collection/list.go` (list_).
  A Go array/list of values is a `List α`; indices are `Int` (Go `int`), slots
  and sizes are `Nat` (Go `uint`).  Every function mirrors the control flow of
  the Go method of the same name: the rebuild loops of list.go are recursive
  functions driven by an iterator that returns the zero value (`default`) when
  exhausted, exactly like `iterator_.GetNext`.
-/
import CollectionModel.Model.Basic
namespace CM
namespace Seq

variable {α : Type}

/-- `iterator_.GetNext` on the remaining values: zero value at the end. -/
def itNext [Inhabited α] : List α → α × List α
  | [] => (default, [])
  | x :: xs => (x, xs)

/-- `array_.toZeroBased`: ordinal index → zero-based position. -/
def toZeroBased (size : Nat) (index : Int) : Except Panic Nat :=
  if size = 0 then .error .emptyIndex
  else if index = 0 then .error .zeroIndex
  else if index < -(size : Int) ∨ index > (size : Int) then .error .outOfRange
  else if index < 0 then .ok (index + size).toNat
  else .ok (index - 1).toNat

/-- `list_.toNormalized`: ordinal index → positive ordinal in [1..size]. -/
def toNormalized (size : Nat) (index : Int) : Except Panic Int :=
  if size = 0 then .error .emptyIndex
  else if index = 0 then .error .zeroIndex
  else if index < -(size : Int) ∨ index > (size : Int) then .error .outOfRange
  else if index < 0 then .ok (index + size + 1)
  else .ok index

/-! ### array_ -/

/-- `array_.GetValue`. -/
def getValue [Inhabited α] (l : List α) (index : Int) : Except Panic α :=
  match toZeroBased l.length index with
  | .error p => .error p
  | .ok i => .ok (l.getD i default)

/-- `array_.GetValues`: `v[first:last+1]` raises a Go slice-bounds error when
    `first > last+1`. -/
def getValues (l : List α) (first last : Int) : Except Panic (List α) :=
  match toZeroBased l.length first with
  | .error p => .error p
  | .ok f =>
    match toZeroBased l.length last with
    | .error p => .error p
    | .ok la =>
      if f > la + 1 then .error .rt
      else .ok ((l.drop f).take (la + 1 - f))

/-- `array_.SetValue`. -/
def setValue (l : List α) (index : Int) (v : α) : Except Panic (List α) :=
  match toZeroBased l.length index with
  | .error p => .error p
  | .ok i => .ok (l.set i v)

/-- `copy(v[first:last], values)` for `last = first + |values|` within bounds. -/
def overwrite (l : List α) (first : Nat) (vs : List α) : List α :=
  l.take first ++ vs ++ l.drop (first + vs.length)

/-- `array_.SetValues` (after fix D01d): the whole target range must be in bounds. -/
def setValues (l : List α) (index : Int) (vs : List α) : Except Panic (List α) :=
  match toZeroBased l.length index with
  | .error p => .error p
  | .ok first =>
    if first + vs.length > l.length then .error .outOfRange
    else .ok (overwrite l first vs)

/-! ### list_ -/

/-- the rebuild loop of `list_.InsertValue`: `n` iterations remain, `index`
    values have been written, `it` is what the iterator still holds. -/
def insertLoop [Inhabited α] (slot : Nat) (value : α) : Nat → Nat → List α → List α
  | 0, _, _ => []
  | n+1, index, it =>
    if index = slot then value :: insertLoop slot value n (index+1) it
    else (itNext it).1 :: insertLoop slot value n (index+1) (itNext it).2

/-- `list_.InsertValue` (after fix D01a: slots beyond the size are rejected). -/
def insertValue [Inhabited α] (l : List α) (slot : Nat) (v : α) : Except Panic (List α) :=
  if slot > l.length then .error .slot
  else .ok (insertLoop slot v (l.length + 1) 0 l)

/-- the rebuild loop of `list_.InsertValues` with the `inserted` flag of fix
    D01b; `none` = the loop did not finish within the fuel (the call hangs). -/
def insertsLoop [Inhabited α] (size slot : Nat) (vs : List α) :
    Nat → Nat → Bool → List α → Option (List α)
  | 0, _, _, _ => none
  | f+1, index, inserted, it =>
    if index < size then
      if index = slot ∧ inserted = false then
        (insertsLoop size slot vs f (index + vs.length) true it).map (vs ++ ·)
      else
        (insertsLoop size slot vs f (index + 1) inserted (itNext it).2).map ((itNext it).1 :: ·)
    else some []

/-- `list_.InsertValues` (after fixes D01b/c).  Outer `Option`: `none` = hang. -/
def insertValues [Inhabited α] (l : List α) (slot : Nat) (vs : List α) :
    Option (Except Panic (List α)) :=
  if slot > l.length then some (.error .slot)
  else (insertsLoop (l.length + vs.length) slot vs (l.length + vs.length + 2) 0 false l).map .ok

/-- `list_.AppendValue`: copy everything, then the value. -/
def appendValue (l : List α) (v : α) : List α := l ++ [v]

/-- `list_.AppendValues`. -/
def appendValues (l : List α) (vs : List α) : List α := l ++ vs

/-- the copy loop of `list_.RemoveValue`: decrement the counter, skip at zero. -/
def removeLoop : Int → List α → List α
  | _, [] => []
  | counter, x :: xs =>
    if counter - 1 = 0 then removeLoop (counter - 1) xs else x :: removeLoop (counter - 1) xs

/-- `list_.RemoveValue`: (removed value, new list). -/
def removeValue [Inhabited α] (l : List α) (index : Int) : Except Panic (α × List α) :=
  match getValue l index with
  | .error p => .error p
  | .ok removed =>
    match toNormalized l.length index with
    | .error p => .error p
    | .ok counter => .ok (removed, removeLoop counter l)

/-- the split loop of `list_.RemoveValues`: (kept, removed); `counter` values
    have been visited (the Go counter is never negative). -/
def splitLoop (first last : Nat) : Nat → List α → List α × List α
  | _, [] => ([], [])
  | counter, x :: xs =>
    let r := splitLoop first last (counter + 1) xs
    if counter + 1 < first ∨ counter + 1 > last then (x :: r.1, r.2) else (r.1, x :: r.2)

/-- `list_.RemoveValues`: `uint(last-first+1)` of a negative number is huge and
    `make` fails with a Go runtime error; (removed, new list) otherwise. -/
def removeValues (l : List α) (first last : Int) : Except Panic (List α × List α) :=
  match toNormalized l.length first with
  | .error p => .error p
  | .ok f =>
    match toNormalized l.length last with
    | .error p => .error p
    | .ok la =>
      if la - f + 1 < 0 then .error .rt
      else
        let r := splitLoop f.toNat la.toNat 0 l
        .ok (r.2, r.1)

/-- `list_.GetIndex` with the collator's equality as a parameter: first ordinal
    whose value compares equal, 0 when absent. -/
def getIndexFrom (eqv : α → α → Bool) (v : α) : Nat → List α → Nat
  | _, [] => 0
  | index, c :: cs => if eqv c v then index + 1 else getIndexFrom eqv v (index + 1) cs

def getIndex (eqv : α → α → Bool) (l : List α) (v : α) : Nat := getIndexFrom eqv v 0 l

def containsValue (eqv : α → α → Bool) (l : List α) (v : α) : Bool := getIndex eqv l v > 0

def containsAny (eqv : α → α → Bool) (l : List α) : List α → Bool
  | [] => false
  | c :: cs => if getIndex eqv l c > 0 then true else containsAny eqv l cs

def containsAll (eqv : α → α → Bool) (l : List α) : List α → Bool
  | [] => true
  | c :: cs => if getIndex eqv l c = 0 then false else containsAll eqv l cs

/-- `listClass_.MakeFromSequence`: append one at a time. -/
def makeFromSequence (vs : List α) : List α := vs.foldl appendValue []

/-- `listClass_.Concatenate`. -/
def concatenate (a b : List α) : List α := appendValues (appendValues [] a) b

end Seq
end CM
