/- driver for CDCN lines (C10, C11, C12) -/
import CollectionModel.Generated.Facts
import CollectionModel.Generated.Scanner
import Driver.CollDrv
import CollectionModel.Model.Cdcn.Parse
import CollectionModel.Model.Cdcn.Format
import CollectionModel.Model.Cdcn.Sentence
import CollectionModel.Model.SetM
open Lean CM CM.Cdcn

namespace Drv

def ttOfName (s : String) : TT :=
  match s with
  | "boolean" => .boolean | "complex" => .complex | "delimiter" => .delimiter | "eof" => .eof | "eol" => .eol
  | "float" => .float | "hexadecimal" => .hexadecimal | "integer" => .integer | "nil" => .nil | "rune" => .rune
  | "space" => .space | "string" => .string | "type" => .type | _ => .error

def ttName (t : TT) : String :=
  match t with
  | .boolean => "boolean" | .complex => "complex" | .delimiter => "delimiter" | .eof => "eof" | .eol => "eol"
  | .float => "float" | .hexadecimal => "hexadecimal" | .integer => "integer" | .nil => "nil" | .rune => "rune"
  | .space => "space" | .string => "string" | .type => "type" | .error => "error"

/-- the default collator's order on parsed values, as used by `Set[any].MakeFromSequence` -/
def rankV (a b : Val) : Rank :=
  match Coll.rank Generated.collatorDefaultMaximum (Coll.fuelFor a b) 0 a b with
  | .ok r => r
  | _ => .eq

def mkSetModel (items : List Val) : Option Val :=
  match SetM.makeFrom rankV items with
  | some (.ok l) => some (.coll .set l)
  | _ => none

/-- structural equality of values up to the order of Go-map entries -/
partial def valEq : Val → Val → Bool
  | .undef, .undef => true
  | .bool a, .bool b => a == b
  | .byte a, .byte b => a == b
  | .uns a, .uns b => a == b
  | .int a, .int b => a == b
  | .rune a, .rune b => a == b
  | .flt a, .flt b => a == b
  | .cpx a, .cpx b => a.re == b.re && a.im == b.im
  | .str a, .str b => a == b
  | .arr c1 n1 xs, .arr c2 n2 ys => c1 == c2 && n1 == n2 && xs.length == ys.length && (xs.zip ys).all (fun p => valEq p.1 p.2)
  | .coll k1 xs, .coll k2 ys => k1 == k2 && xs.length == ys.length && (xs.zip ys).all (fun p => valEq p.1 p.2)
  | .assoc k1 v1, .assoc k2 v2 => valEq k1 k2 && valEq v1 v2
  | .gomap c1 n1 e1, .gomap c2 n2 e2 => c1 == c2 && n1 == n2 && e1.length == e2.length &&
      e1.all (fun p => e2.any (fun q => valEq p.1 q.1 && valEq p.2 q.2))
  | _, _ => false

def parsedStr : Parsed → String
  | .value _ => "value"
  | .diag t => s!"diag {ttName t.tt} {t.line}:{t.pos}"
  | .rt => "runtime-error" | .lib => "library-panic" | .hang => "hang"

/-- (line, column) of the rune at offset `i` of the source: lines are separated by '\n' -/
def lineCol (src : List Nat) (i : Nat) : Nat × Nat :=
  (src.take i).foldl (fun (lc : Nat × Nat) c => if c == 10 then (lc.1 + 1, 1) else (lc.1, lc.2 + 1)) (1, 1)

/-- at one source position: every hand-written recogniser answers what the leftmost-first matcher answers
    on the pattern tree regenerated from scanner.go (same order: Tie.scanner_order_tie) -/
def reAgreeAt (src : List Nat) : Bool :=
  (Generated.matcherTrees.zip matchers).all fun p => p.1.2.matchLen src == p.2.2 src

/-- ... at every position where the scanner model starts a token -/
def reAgree : Nat → List Nat → Bool
  | 0, _ => true
  | _, [] => true
  | f+1, c :: cs =>
    reAgreeAt (c :: cs) &&
      (match matchToken (c :: cs) with
       | none => true
       | some (_, n) => reAgree f ((c :: cs).drop (if n == 0 then 1 else n)))

def cdcnLine (j : Json) : String :=
  let pid := str j "pid"
  let src := nats j "src"
  let toks := scan src
  let implToks := (arr j "toks").toList
  -- 1. the scanner model against the real token stream
  let scanOk := toks.length == implToks.length &&
    (toks.zip implToks).all (fun p => ttName p.1.tt == str p.2 "tt" && (p.1.tt == .eof || p.1.value.length == nat p.2 "n")
      && p.1.line == nat p.2 "line" && p.1.pos == nat p.2 "pos")
  -- token positions are the line/column of the token's first rune (independent recomputation)
  let offsets := toks.foldl (fun (acc : List Nat × Nat) _ => acc) ([], 0)
  let _ := offsets
  -- 2. the parser model, literal conversion taken from the line (strconv is external)
  let convs := (arr j "conv").toList
  let table : List ((Nat × Nat) × Option Val) := (toks.zip convs).map fun p =>
    ((p.1.line, p.1.pos), if p.2.isNull then none else some (parseVal p.2))
  let env : Env := { stackSize := Generated.parserStackSize, nlines := nat j "nlines",
                     conv := fun t => ((table.find? (fun e => e.1 == (t.line, t.pos))).map (·.2)).getD none,
                     mkSet := mkSetModel }
  let m := parseTokens env (8 * toks.length + 16) toks
  let pj := fld j "parse"
  let out := str pj "out"
  let implV := parseVal (fld pj "v")
  let corrParse := match m with
    | .value v => out == "ret" && valEq v implV
    | .diag t => out == "panic" && str pj "pc" == "syntax" && str pj "tt" == ttName t.tt && nat pj "line" == t.line && nat pj "pos" == t.pos
    | .rt => out == "panic" && str pj "pc" == "rt"
    | .lib => out == "panic" && (str pj "pc" != "rt" && str pj "pc" != "syntax")
    | .hang => out == "hang"
  -- 3. specification C12: a value or a located syntax diagnostic; nothing else; no goroutine left behind
  let located := out != "panic" || str pj "pc" != "syntax" ||
    toks.any (fun t => t.line == nat pj "line" && t.pos == nat pj "pos" && ttName t.tt == str pj "tt")
  let injected := !has j "at" || (out == "panic" && str pj "pc" == "syntax" &&
    [nat pj "line", nat pj "pos"] == nats j "at")
  let spec12 := firstFail [
    ("hang", out != "hang"),
    ("go-runtime-error", !(out == "panic" && str pj "pc" == "rt")),
    ("non-diagnostic-panic", !(out == "panic" && str pj "pc" != "syntax" && str pj "pc" != "rt")),
    ("diagnostic-not-at-a-token-start", located),
    ("diagnostic-misses-the-injected-character", injected),
    ("scanner-goroutine-left-behind", !bool pj "leak")]
  -- 4. specification C11: the sentence is accepted with its intended meaning
  let spec11 : Option String := if !has j "expect" then none else
    (if out != "ret" then some "sentence-rejected"
     else if !valEq implV (parseVal (fld j "expect")) then some "wrong-meaning" else none)
  let spec11b : Option String := if !bool j "inexact" then none else
    (if out == "ret" then some "inexact-literal-accepted" else none)
  let spec11c : Option String := if has j "det" && !bool j "det" then some "result-depends-on-schedule" else none
  let spec := if pid == "C11" then (spec11.orElse fun _ => spec11b.orElse fun _ => spec11c) else spec12
  let reOk := reAgree (src.length + 1) src
  let corr := if !scanOk then some "scanner" else if !reOk then some "recogniser-vs-pattern" else if !corrParse then some "parser" else none
  verdict corr.isNone spec.isNone s!"{pid}/{spec.getD "ok"}/{str j "gen"}"
    s!"corr-break:{corr.getD "-"} model={parsedStr m} tokens={toks.length}"

end Drv

namespace Drv
open CM.Cdcn

partial def hasWideMap : Val → Bool
  | .gomap _ _ es => es.length ≥ 2 || es.any (fun e => hasWideMap e.2)
  | .arr _ _ xs => xs.any hasWideMap
  | .coll _ xs => xs.any hasWideMap
  | .assoc _ v => hasWideMap v
  | _ => false

partial def nesting : Val → Nat
  | .gomap _ _ es => 1 + es.foldl (fun m e => Nat.max m (nesting e.2)) 0
  | .arr _ _ xs => 1 + xs.foldl (fun m x => Nat.max m (nesting x)) 0
  | .coll _ xs => 1 + xs.foldl (fun m x => Nat.max m (nesting x)) 0
  | .assoc _ v => nesting v
  | _ => 0

def splitLines (t : List Nat) : List (List Nat) :=
  (t.foldr (fun c (acc : List (List Nat)) => if c == 10 then [] :: acc else
    match acc with | l :: ls => (c :: l) :: ls | [] => [[c]]) [[]])

def lexLe : List Nat → List Nat → Bool
  | [], _ => true
  | _ :: _, [] => false
  | a :: as, b :: bs => a < b || (a == b && lexLe as bs)

/-- insertion sort of lines (texts of unordered Maps are compared as multisets of lines) -/
def sortLines (ls : List (List Nat)) : List (List Nat) :=
  ls.foldl (fun acc l =>
    let (lo, hi) := acc.span (fun x => lexLe x l)
    lo ++ l :: hi) []

def sameText (wide : Bool) (a b : List Nat) : Bool :=
  if wide then sortLines (splitLines a) == sortLines (splitLines b) else a == b

def containsDots (t : List Nat) : Bool :=
  let rec go : List Nat → Bool
    | 46 :: 46 :: 46 :: _ => true
    | _ :: r => go r
    | [] => false
  go t

/-- the contract `LeafLex` of the round-trip theorem (Lemmas/RoundTrip.lean), checked on one shipped
    leaf text: before each of the three characters that can follow a leaf in the formatter's output the
    scanner model reads the text as exactly one token of a literal kind -/
def leafLexOk (t : List Nat) : Bool :=
  [ch ']', 10, ch ':'].all fun c =>
    match matchToken (t ++ [c]) with
    | some (tt, n) => n == t.length && isLiteralKind tt
    | none => false

/-- the predicate `Canon` of the round-trip theorem as a Boolean (equality of values by `valEq`) -/
partial def canonB (max : Nat) (d : Nat) : Val → Bool
  | .arr cls n xs => cls && !n && d < max && xs.all (fun x => canonB max (d+1) x && !isAssocVal x)
  | .coll .catalog xs => d < max && xs.all (fun x => canonB max (d+1) x && isAssocVal x) &&
      (let c := Val.catalogOf (pairsOf xs); c.length == xs.length && (c.zip xs).all (fun p => valEq p.1 p.2))
  | .coll .set xs => d < max && xs.all (fun x => canonB max (d+1) x && !isAssocVal x) &&
      (match mkSetModel xs with | some v => valEq v (.coll .set xs) | none => false)
  | .coll _ xs => d < max && xs.all (fun x => canonB max (d+1) x && !isAssocVal x)
  | .gomap cls n es => cls && !n && d < max && es.all (fun e => canonB max (d+1) e.2 && !isAssocVal e.2) &&
      (let c := Val.mapOf es; c.length == es.length && (c.zip es).all (fun p => valEq p.1.1 p.2.1 && valEq p.1.2 p.2.2))
  | .assoc _ x => canonB max d x && !isAssocVal x
  | _ => true

def isCollB : Val → Bool
  | .arr _ _ _ => true | .coll _ _ => true | .gomap _ _ _ => true | _ => false

def rtLine (j : Json) : String :=
  let v := parseVal (fld j "v")
  let wide := hasWideMap v
  let leaves : List (Val × List Nat) := (arr j "leaves").toList.map fun e =>
    match e.getArr? with
    | .ok a => (parseVal (a.getD 0 Json.null), nats (a.getD 1 Json.null) "text")
    | _ => (.undef, [])
  let leafText : Val → Option (List Nat) := fun x => (leaves.find? (fun p => valEq p.1 x && (p.1.tcode == x.tcode))).map (·.2)
  let m := formatValue leafText Generated.formatterDefaultMaximum (4 * (Coll.Val.size v) + 16) v
  let deep := nesting v > Generated.formatterDefaultMaximum
  if str j "fmt" != "ret" then
    verdict (m != .hang && (match m with | .ok _ => false | _ => true)) false s!"C10/format-{str j "fmt"}/{str j "gen"}" "format did not return"
  else
  let text := nats j "text"
  let corrFmt := match m with | .ok t => sameText wide t text | _ => false
  -- parse the real text with the parser model
  let toks := scan text
  let convs := (arr j "conv").toList
  let table : List ((Nat × Nat) × Option Val) := (toks.zip convs).map fun p =>
    ((p.1.line, p.1.pos), if p.2.isNull then none else some (parseVal p.2))
  let env : Env := { stackSize := Generated.parserStackSize, nlines := nat j "nlines",
                     conv := fun t => ((table.find? (fun e => e.1 == (t.line, t.pos))).map (·.2)).getD none,
                     mkSet := mkSetModel }
  let pm := parseTokens env (8 * toks.length + 16) toks
  let pj := fld j "parse"
  let out := str pj "out"
  let implV := parseVal (fld pj "v")
  let corrParse := match pm with
    | .value x => out == "ret" && valEq x implV
    | .diag t => out == "panic" && str pj "pc" == "syntax" && nat pj "line" == t.line && nat pj "pos" == t.pos
    | _ => false
  let canon := bool j "canon"
  let spec : Option String :=
    if deep then firstFail [("deep-nest-not-elided", containsDots text)]
    else firstFail [
      ("formatted-text-rejected", out == "ret"),
      ("parsed-value-differs", !canon || valEq implV v),
      ("compare-says-unequal", !canon || bool j "eq"),
      ("text-not-a-fixpoint-reordered", !(str j "fmt2" == "ret" && !sameText wide (nats j "text2") text
          && sameText true (nats j "text2") text)),
      ("text-not-a-fixpoint", str j "fmt2" == "ret" && sameText wide (nats j "text2") text),
      ("scanner-goroutine-left-behind", !bool pj "leak"),
      -- the sign of a zero is part of the number
      ("negative-zero-lost", !canon || !has j "nz" || (match nats j "nz" with | [a, b] => a == b | _ => false)),
      -- the other entry points named by the property write and read the same notation
      ("string-method-differs", !has j "str" ||
          (str (fld j "str") "out" == "ret" && sameText wide (nats (fld j "str") "text") text)),
      ("module-format-differs", !has j "modfmt" ||
          (str (fld j "modfmt") "out" == "ret" && sameText wide (nats (fld j "modfmt") "text") text)),
      ("module-parse-differs", !has j "modparse" || (str (fld j "modparse") "out" == out &&
          (out != "ret" || bool (fld j "modparse") "eq")))]
  -- the externals' contract of the round-trip theorem, on every shipped leaf text
  let leafOk := leaves.all fun p => leafLexOk p.2
  -- inside the theorem's hypotheses (canonical value within the limit, contract holds) C10_roundtrip predicts
  -- what the three models compute: parse (scan (format v)) = v
  -- ... and the conversion half of the contract: the token of a leaf text converts back to that leaf (narrower
  -- numeric widths do not: they are outside the theorem, and a recorded finding of the property)
  let convOk := toks.all fun t => !isLiteralKind t.tt ||
    -- EVERY leaf that is written with this text must come back from it (two leaves of different widths can share a text)
    (leaves.filter (fun p => p.2 == t.value)).all fun p =>
      match env.conv t with
      | some x => valEq p.1 x && p.1.tcode == x.tcode
      | none => false
  let inThm := !deep && isCollB v && canonB Generated.formatterDefaultMaximum 0 v && leafOk && convOk
  let thmOk := !inThm || wide || (match m with
    | .ok t => (match parseTokens env (8 * (scan t).length + 16) (scan t) with | .value x => valEq x v | _ => false)
    | _ => false)
  let reOk := reAgree (text.length + 1) text
  let corr := if !corrFmt then some "formatter" else if !corrParse then some "parser"
    else if !reOk then some "recogniser-vs-pattern"
    else if !leafOk then some "leaf-contract" else if !thmOk then some "theorem-prediction" else none
  let mtxt := match m with | .ok t => String.ofList (t.map Char.ofNat) | .lib => "<lib panic>" | .hang => "<hang>"
  verdict corr.isNone spec.isNone s!"C10/{spec.getD "ok"}/{str j "gen"}{if inThm then "/thm" else ""}" s!"corr-break:{corr.getD "-"}{if corrFmt then "" else " model-text=" ++ mtxt}"

def rtseqLine (j : Json) : String :=
  let same := str j "fmt" == "ret" && sortLines (splitLines (nats j "fresh")) == sortLines (splitLines (nats j "after"))
  verdict true same "C10/text-depends-on-earlier-calls/seq" ""

def rtcycLine (j : Json) : String :=
  let ok := str j "status" == "ok" && bool j "elided"
  verdict true ok s!"C10/self-containing-{str j "status"}/cyc" ""

end Drv
