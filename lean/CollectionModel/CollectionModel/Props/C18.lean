/-
  C18 — Go arrays and maps crossing the API are copied, never aliased.

  Statement (properties.jsonl): a Go array or map passed to any constructor, and
  any array or sequence returned by AsArray, GetValues, GetKeys, RemoveValues or
  a class function, shares no storage with the collection: modifying one after
  the call never changes what the other contains.  Passing a collection as the
  operand of its own bulk operation behaves as if a separate copy had been
  passed.

  The theorems are about `Model/Heap.lean`, where every API entry point is the
  sequence of allocations, copies, in-place writes and pointer updates of its Go
  body.  They hold for every script (history) of calls, every number of objects
  and every size.
-/
import CollectionModel.Lemmas.HeapLemmas
namespace CM
open CM.Heap

/-- the handles a step uses exist -/
def Heap.Op.handles : Op → List Nat
  | .goArray _ | .goPairs _ => []
  | .goWrite x .. | .goPairWrite x .. | .goMapSet x .. | .goMapDelete x .. => [x]
  | .makeFromArray _ y | .makeFromSequence _ y | .makeFromMap _ y => [y]
  | .asArray x | .getValues x .. | .getKeys x | .removeValuesRange x .. => [x]
  | .getValuesFor x k | .removeValuesFor x k | .extract x k => [x, k]
  | .concatenate a b | .setFn _ a b | .merge a b => [a, b]
  | .setValue x .. | .appendValue x .. | .removeValue x .. | .reverse x | .sort x | .addValue x ..
  | .pushValue x .. | .removeFirst x | .putValue x .. | .dropKey x .. | .removeAll x => [x]
  | .setValues x _ y | .insertValues x _ y | .appendValues x y | .addValues x y | .removeValues x y => [x, y]

def Valid (s : St) (op : Op) : Prop := ∀ x ∈ op.handles, x < s.refs.length

theorem wf_snap (s : St) (h : WF s) (y : Nat) : WF (s.snap y).1 := wf_alloc s h _
@[simp] theorem snap_refs (s : St) (y : Nat) : (s.snap y).1.refs = s.refs := rfl
theorem obs_snap (s : St) (h : WF s) (y z : Nat) (hz : z < s.refs.length) : (s.snap y).1.obs z = s.obs z :=
  obs_alloc s h _ z hz
@[simp] theorem snap_snd (s : St) (y : Nat) : (s.snap y).2 = s.cells.length := rfl

theorem snap_cell (s : St) (y : Nat) : (s.snap y).1.cell (s.snap y).2 = s.obs y := by
  simp [St.snap]

/-- **well-formedness is an invariant**: handles keep pointing at existing,
    pairwise distinct cells after every call -/
theorem C18_step_wf (s : St) (h : WF s) (op : Op) : WF (exec s op) := by
  cases op <;> simp only [exec] <;>
    first
    | exact wf_give _ h _
    | exact wf_inplace _ h _ _
    | exact wf_rebuild _ h _ _
    | exact wf_give _ (wf_snap _ h _) _
    | exact wf_give _ (wf_snap _ (wf_snap _ h _) _) _
    | exact wf_rebuild _ (wf_snap _ h _) _ _
    | exact wf_inplace _ (wf_snap _ h _) _ _
    | skip
  case makeFromArray kind y =>
    cases kind <;> simp only <;> first
      | exact wf_give s h _
      | exact wf_give _ (wf_snap _ (wf_snap s h _) _) _
  case makeFromSequence kind y =>
    cases kind <;> exact wf_give _ (wf_snap _ h _) _
  case makeFromMap kind y =>
    cases kind <;> exact wf_give _ h _
  case getValues x f l =>
    split
    · exact wf_give _ h _
    · exact h
  case removeValuesRange x f l =>
    split
    · rename_i f n _
      simp only [St.snap]
      have h1 := wf_alloc s h (s.obs x)
      have h2 := wf_alloc _ h1 (.vals (((s.valsOf x).drop f).take n))
      have h3 := wf_alloc _ h2 (.vals ((s.valsOf x).take f ++ (s.valsOf x).drop (f + n)))
      refine wf_push _ (wf_retarget _ h3 _ _ ?_ ?_) _ ?_ ?_
      · simp
      · have := fresh_not_ref _ h2
        simpa using this
      · simp
      · intro hm
        simp only [St.retarget] at hm
        rcases List.mem_or_eq_of_mem_set hm with hm | he
        · have := h.bound _ hm
          simp at this hm; omega
        · simp at he
    · exact h
  case removeValuesFor x keys =>
    exact wf_give _ (wf_inplace _ (wf_snap _ h _) _ _) _

theorem step_len (s : St) (op : Op) : s.refs.length ≤ (exec s op).refs.length := by
  cases op <;> simp only [exec] <;> try (simp [St.give, St.push, St.inplace, St.rebuild, St.snap, St.alloc, St.retarget, St.poke]; done)
  case makeFromArray kind y => cases kind <;> simp [St.give, St.push, St.alloc]
  case makeFromSequence kind y => cases kind <;> simp [St.give, St.push, St.snap, St.alloc]
  case makeFromMap kind y => cases kind <;> simp [St.give, St.push, St.alloc]
  case getValues x f l => split <;> simp [St.give, St.push, St.alloc]
  case removeValuesRange x f l => split <;> simp [St.push, St.snap, St.alloc, St.retarget]

/-- **isolation, one step**: a call changes what is seen through its receiver
    (and creates its result); everything any other handle shows is unchanged.
    In particular a write through the client's Go array or map is invisible in
    every collection built from it, a mutation of a collection is invisible in
    every array or sequence obtained from it earlier, and conversely. -/
theorem C18_step_isolation (s : St) (h : WF s) (op : Op) (hv : Valid s op) (y : Nat)
    (hy : y < s.refs.length) (hne : op.receiver ≠ some y) :
    (exec s op).obs y = s.obs y := by
  have g1 : ∀ c, (s.give c).obs y = s.obs y := fun c => obs_give s h c y hy
  have gs : ∀ z c, ((s.snap z).1.give c).obs y = s.obs y := fun z c => by
    rw [obs_give _ (wf_snap s h z) c y (by simpa using hy), obs_snap s h z y hy]
  have gss : ∀ z w c, (((s.snap z).1.snap w).1.give c).obs y = s.obs y := fun z w c => by
    rw [obs_give _ (wf_snap _ (wf_snap s h z) w) c y (by simpa using hy),
      obs_snap _ (wf_snap s h z) w y (by simpa using hy), obs_snap s h z y hy]
  have ip : ∀ x c, x ∈ op.handles → op.receiver = some x → (s.inplace x c).obs y = s.obs y := fun x c hx hr => by
    apply obs_inplace s h x c y (hv x hx) hy
    intro he; subst he; exact hne hr
  have rb : ∀ x new, op.receiver = some x → (s.rebuild x new).obs y = s.obs y := fun x new hr => by
    apply obs_rebuild s h x new y hy
    intro he; subst he; exact hne hr
  have srb : ∀ z x new, op.receiver = some x → ((s.snap z).1.rebuild x new).obs y = s.obs y := fun z x new hr => by
    rw [obs_rebuild _ (wf_snap s h z) x new y (by simpa using hy) (by intro he; subst he; exact hne hr),
      obs_snap s h z y hy]
  have sip : ∀ z x c, x ∈ op.handles → op.receiver = some x → ((s.snap z).1.inplace x c).obs y = s.obs y :=
    fun z x c hx hr => by
      rw [obs_inplace _ (wf_snap s h z) x c y (by simpa using hv x hx) (by simpa using hy)
        (by intro he; subst he; exact hne hr), obs_snap s h z y hy]
  cases op <;> simp only [exec] <;>
    first
    | exact g1 _
    | exact gs _ _
    | exact gss _ _ _
    | exact ip _ _ (by simp [Op.handles]) rfl
    | exact rb _ _ rfl
    | exact srb _ _ _ rfl
    | exact sip _ _ _ (by simp [Op.handles]) rfl
    | skip
  case makeFromArray kind z =>
    cases kind <;> simp only <;> first
      | exact g1 _
      | exact gss _ _ _
  case makeFromSequence kind z => cases kind <;> exact gs _ _
  case makeFromMap kind z => cases kind <;> exact g1 _
  case getValues x f l =>
    split
    · exact g1 _
    · rfl
  case removeValuesRange x f l =>
    have hr : x ≠ y := by intro he; subst he; exact hne rfl
    split
    · rename_i f n _
      simp only [St.snap]
      have h1 := wf_alloc s h (s.obs x)
      have h2 := wf_alloc _ h1 (.vals (((s.valsOf x).drop f).take n))
      unfold St.obs
      rw [push_addr_old _ _ _ (by simpa using hy), push_cell, retarget_addr_other _ _ _ _ hr, retarget_cell]
      have e3 := obs_alloc _ h2 (.vals ((s.valsOf x).take f ++ (s.valsOf x).drop (f + n))) y (by simpa using hy)
      have e2 := obs_alloc _ h1 (.vals (((s.valsOf x).drop f).take n)) y (by simpa using hy)
      have e1 := obs_alloc s h (s.obs x) y hy
      unfold St.obs at e1 e2 e3
      rw [e3, e2, e1]
    · rfl
  case removeValuesFor x keys =>
    have hr : x ≠ y := by intro he; subst he; exact hne rfl
    rw [obs_give _ (wf_inplace _ (wf_snap s h keys) _ _) _ y (by simpa using hy),
      obs_inplace _ (wf_snap s h keys) x _ y (by simpa using hv x (by simp [Op.handles])) (by simpa using hy) hr,
      obs_snap s h keys y hy]

/-- scripts whose every step uses existing handles -/
def ValidRun : St → List Op → Prop
  | _, [] => True
  | s, op :: ops => Valid s op ∧ ValidRun (exec s op) ops

/-- **isolation over histories**: whatever calls are made, in whatever order
    and number, a handle that is never the receiver shows at the end exactly
    what it showed at the start. -/
theorem C18_history_isolation : ∀ (ops : List Op) (s : St), WF s → ValidRun s ops →
    ∀ y, y < s.refs.length → (∀ op ∈ ops, op.receiver ≠ some y) → (run s ops).obs y = s.obs y
  | [], _, _, _, _, _, _ => rfl
  | op :: ops, s, h, hv, y, hy, hn => by
    simp only [run, List.foldl_cons]
    have ih := C18_history_isolation ops (exec s op) (C18_step_wf s h op) hv.2 y
      (Nat.lt_of_lt_of_le hy (step_len s op)) (fun o ho => hn o (by simp [ho]))
    simp only [run] at ih
    rw [ih, C18_step_isolation s h op hv.1 y hy (hn op (by simp))]

/-- **constructors copy**: the object returned by `MakeFromArray`,
    `MakeFromSequence` or `MakeFromMap` of every kind lives in a cell that did
    not exist before the call, so it is distinct from the argument's cell and
    from every other object's. -/
theorem C18_constructor_fresh (s : St) (kind : Kind) (y : Nat) :
    s.cells.length ≤ (exec s (.makeFromArray kind y)).addr s.refs.length ∧
    s.cells.length ≤ (exec s (.makeFromSequence kind y)).addr s.refs.length ∧
    s.cells.length ≤ (exec s (.makeFromMap kind y)).addr s.refs.length := by
  have key : ∀ (t : St) (c : Cell), t.refs = s.refs → s.cells.length ≤ t.cells.length →
      s.cells.length ≤ (t.give c).addr s.refs.length := by
    intro t c hr hl
    have := (give_new t c).1
    rw [hr] at this; omega
  refine ⟨?_, ?_, ?_⟩
  · cases kind <;> simp only [exec] <;> first
      | exact key _ _ rfl (Nat.le_refl _)
      | exact key _ _ rfl (by simp [St.snap] <;> omega)
  · cases kind <;> simp only [exec] <;> exact key _ _ rfl (by simp [St.snap] <;> omega)
  · cases kind <;> simp only [exec] <;> exact key _ _ rfl (Nat.le_refl _)

/-- **results are copies**: what `AsArray`, `GetKeys`, `GetValues(keys)`,
    `Concatenate`, `And/Or/Sans/Xor`, `Merge`, `Extract` hand out lives in a
    cell that did not exist before the call. -/
theorem C18_result_fresh (s : St) (x y w : Nat) :
    s.cells.length ≤ (exec s (.asArray x)).addr s.refs.length ∧
    s.cells.length ≤ (exec s (.getKeys x)).addr s.refs.length ∧
    s.cells.length ≤ (exec s (.getValuesFor x y)).addr s.refs.length ∧
    s.cells.length ≤ (exec s (.concatenate x y)).addr s.refs.length ∧
    s.cells.length ≤ (exec s (.setFn w x y)).addr s.refs.length ∧
    s.cells.length ≤ (exec s (.merge x y)).addr s.refs.length ∧
    s.cells.length ≤ (exec s (.extract x y)).addr s.refs.length := by
  have key : ∀ (t : St) (c : Cell), t.refs = s.refs → s.cells.length ≤ t.cells.length →
      s.cells.length ≤ (t.give c).addr s.refs.length := by
    intro t c hr hl
    have := (give_new t c).1
    rw [hr] at this; omega
  refine ⟨?_, ?_, ?_, ?_, ?_, ?_, ?_⟩ <;> simp only [exec] <;>
    first
    | exact key _ _ rfl (Nat.le_refl _)
    | exact key _ _ rfl (by simp [St.snap] <;> omega)

/-- `GetValues(first, last)` of an Array, List or Set and the removed values of
    `List.RemoveValues(first, last)`: fresh cells as well; the list itself moves
    to a fresh cell. -/
theorem C18_range_results_fresh (s : St) (x : Nat) (first last : Int) (f n : Nat)
    (hr : rangeOf (s.valsOf x).length first last = some (f, n)) (hx : x < s.refs.length) :
    s.cells.length ≤ (exec s (.getValues x first last)).addr s.refs.length ∧
    s.cells.length ≤ (exec s (.removeValuesRange x first last)).addr s.refs.length ∧
    s.cells.length ≤ (exec s (.removeValuesRange x first last)).addr x ∧
    (exec s (.removeValuesRange x first last)).addr s.refs.length ≠
      (exec s (.removeValuesRange x first last)).addr x := by
  simp only [exec, hr, St.snap]
  refine ⟨?_, ?_, ?_, ?_⟩
  · have := (give_new s (.vals (((s.valsOf x).drop f).take n))).1
    omega
  · have : ∀ (t : St) (a : Nat), (t.push a).addr t.refs.length = a := fun t a => push_addr_new t a
    have e := this ((((s.alloc (s.obs x)).1.alloc (.vals (((s.valsOf x).drop f).take n))).1.alloc
      (.vals ((s.valsOf x).take f ++ (s.valsOf x).drop (f + n)))).1.retarget x (s.cells.length + 1 + 1)) (s.cells.length + 1)
    simp only [retarget_len, alloc_refs] at e
    simp only [alloc_snd, alloc_len]
    rw [e]; omega
  · rw [push_addr_old _ _ _ (by simpa using hx), retarget_addr_self _ _ _ (by simpa using hx)]
    simp <;> omega
  · have : ∀ (t : St) (a : Nat), (t.push a).addr t.refs.length = a := fun t a => push_addr_new t a
    have e := this ((((s.alloc (s.obs x)).1.alloc (.vals (((s.valsOf x).drop f).take n))).1.alloc
      (.vals ((s.valsOf x).take f ++ (s.valsOf x).drop (f + n)))).1.retarget x (s.cells.length + 1 + 1)) (s.cells.length + 1)
    simp only [retarget_len, alloc_refs] at e
    simp only [alloc_snd, alloc_len]
    rw [e, push_addr_old _ _ _ (by simpa using hx), retarget_addr_self _ _ _ (by simpa using hx)]
    omega

/-- **self operand**: a bulk operation whose operand is the receiver itself
    leaves the receiver exactly as the same operation with a separate copy
    (`AsArray`) of the receiver as operand. -/
theorem C18_self_operand (s : St) (h : WF s) (x : Nat) (hx : x < s.refs.length) (slot : Nat) :
    let c := s.refs.length                      -- the handle of the copy
    let s' := exec s (.asArray x)
    (exec s (.appendValues x x)).obs x = (exec s' (.appendValues x c)).obs x ∧
    (exec s (.insertValues x slot x)).obs x = (exec s' (.insertValues x slot c)).obs x ∧
    (exec s (.setValues x slot x)).obs x = (exec s' (.setValues x slot c)).obs x ∧
    (exec s (.addValues x x)).obs x = (exec s' (.addValues x c)).obs x ∧
    (exec s (.removeValues x x)).obs x = (exec s' (.removeValues x c)).obs x := by
  intro c s'
  have hs' : WF s' := C18_step_wf s h _
  have hx' : x < s'.refs.length := Nat.lt_of_lt_of_le hx (step_len s _)
  -- the copy shows what the receiver shows
  have hcopy : s'.obs c = s.obs x := (give_new s (s.obs x)).2
  have hkeep : s'.obs x = s.obs x := obs_give s h _ x hx
  have vx : ∀ z, (s.snap z).1.valsOf x = s.valsOf x := fun z => by
    unfold St.valsOf; rw [obs_snap s h z x hx]
  have vx' : ∀ z, (s'.snap z).1.valsOf x = s.valsOf x := fun z => by
    unfold St.valsOf; rw [obs_snap s' hs' z x hx', hkeep]
  have cellx : (s.snap x).1.cell (s.snap x).2 = s.obs x := snap_cell s x
  have cellc : (s'.snap c).1.cell (s'.snap c).2 = s.obs x := by rw [snap_cell, hcopy]
  refine ⟨?_, ?_, ?_, ?_, ?_⟩ <;> simp only [exec]
  · rw [obs_rebuild_self _ _ _ (by simpa using hx), obs_rebuild_self _ _ _ (by simpa using hx'), vx, vx', cellx, cellc]
  · rw [obs_rebuild_self _ _ _ (by simpa using hx), obs_rebuild_self _ _ _ (by simpa using hx'), vx, vx', cellx, cellc]
  · rw [obs_inplace_self _ (wf_snap s h x) _ _ (by simpa using hx),
      obs_inplace_self _ (wf_snap s' hs' c) _ _ (by simpa using hx'), vx, vx', cellx, cellc]
  · rw [obs_rebuild_self _ _ _ (by simpa using hx), obs_rebuild_self _ _ _ (by simpa using hx'), vx, vx', cellx, cellc]
  · rw [obs_rebuild_self _ _ _ (by simpa using hx), obs_rebuild_self _ _ _ (by simpa using hx'), vx, vx', cellx, cellc]

/-! ### non-vacuity: a concrete history -/

/-- build a list from a Go array, overwrite the Go array, take AsArray, mutate
    the list: three objects, three different cells, nothing leaks. -/
example :
    let s := run St.empty [.goArray [1, 2, 3], .makeFromArray .list 0, .goWrite 0 1 99, .asArray 1, .appendValue 1 7]
    s.valsOf 0 = [1, 99, 3] ∧ s.valsOf 1 = [1, 2, 3, 7] ∧ s.valsOf 2 = [1, 2, 3] := by
  decide

end CM
