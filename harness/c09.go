package main

// C09: Sorting yields an ordered permutation for every ranker.

import (
	"runtime"
	age "github.com/craterdog/go-collection-framework/v4/agent"
	col "github.com/craterdog/go-collection-framework/v4/collection"
)

func cmpInt(a, b int) age.Rank {
	if a < b {
		return age.LesserRank
	}
	if a > b {
		return age.GreaterRank
	}
	return age.EqualRank
}

func floorDiv3(a int) int {
	if a >= 0 {
		return a / 3
	}
	return -((-a + 2) / 3)
}

// rankers shared with the Lean driver (identical arithmetic); ids are non-negative
var sortRankers = map[string]func(a, b int) age.Rank{
	"nat":    cmpInt,
	"rev":    func(a, b int) age.Rank { return cmpInt(b, a) },
	"coarse": func(a, b int) age.Rank { return cmpInt(floorDiv3(a), floorDiv3(b)) },
	"const":  func(a, b int) age.Rank { return age.EqualRank },
	"lt":     func(a, b int) age.Rank { return age.LesserRank },
	"gt":     func(a, b int) age.Rank { return age.GreaterRank },
	// a total order computed through shared scratch fields: correct whenever one sort calls it at a time
	"scratch": func(a, b int) age.Rank {
		scratchA, scratchB = a, b
		runtime.Gosched()
		return cmpInt(scratchA, scratchB)
	},
	// a ranking function may answer with a value that is none of the three constants (Rank is a plain integer type)
	"weird": func(a, b int) age.Rank {
		if (a+b)%3 == 0 {
			return age.Rank(3 + (a*b)%5)
		}
		return cmpInt(a, b)
	},
	"rand": func(a, b int) age.Rank {
		switch (a*31 + b*17 + a*b) % 3 {
		case 0:
			return age.LesserRank
		case 1:
			return age.EqualRank
		}
		return age.GreaterRank
	},
}
var scratchA, scratchB int

var rankerNames = []string{"scratch", "nat", "rev", "coarse", "const", "lt", "gt", "rand", "stateful", "weird"}

func sortLine(out *Out, caseID int, via, op, rk string, in []int) {
	var res []int
	calls := 0
	ranker := sortRankers[rk]
	if rk == "stateful" {
		// answers depend on the number of calls made so far
		ranker = func(a, b int) age.Rank {
			calls++
			switch (calls*7 + a) % 3 {
			case 0:
				return age.LesserRank
			case 1:
				return age.EqualRank
			}
			return age.GreaterRank
		}
	}
	cr := guarded(20*opTimeout, func() {
		work := append([]int{}, in...)
		switch via {
		case "sorter-then-others":
			// the sorted array is still in use while other arrays of the same element type are sorted, and is sorted
			// again itself: what it holds must not depend on those other calls
			s := age.Sorter[int]().MakeWithRanker(ranker)
			s.SortValues(work)
			for _, m := range []int{len(work), len(work) - 1, len(work) + 3} {
				if m < 0 {
					continue
				}
				other := make([]int, m)
				for i := range other {
					other[i] = 900 - 7*i
				}
				age.Sorter[int]().MakeWithRanker(ranker).SortValues(other)
			}
			age.Sorter[int]().Make().SortValues(make([]int, 6))
			s.ReverseValues(work)
			s.SortValues(work)
			res = work
		case "sorter":
			s := age.Sorter[int]().MakeWithRanker(ranker)
			switch op {
			case "sort":
				s.SortValues(work)
			case "reverse":
				s.ReverseValues(work)
			case "reverse2":
				s.ReverseValues(work)
				s.ReverseValues(work)
			case "shuffle":
				s.ShuffleValues(work)
			}
			res = work
		case "array":
			a := col.Array[int](notation).MakeFromArray(work)
			switch op {
			case "sort":
				if rk == "nat" {
					a.SortValues()
				} else {
					a.SortValuesWithRanker(ranker)
				}
			case "reverse":
				a.ReverseValues()
			case "reverse2":
				a.ReverseValues()
				a.ReverseValues()
			case "shuffle":
				a.ShuffleValues()
			}
			res = a.AsArray()
		case "list":
			l := col.List[int](notation).MakeFromArray(work)
			switch op {
			case "sort":
				if rk == "nat" {
					l.SortValues()
				} else {
					l.SortValuesWithRanker(ranker)
				}
			case "reverse":
				l.ReverseValues()
			case "reverse2":
				l.ReverseValues()
				l.ReverseValues()
			case "shuffle":
				l.ShuffleValues()
			}
			res = l.AsArray()
		case "catalog":
			// keys are positions, so equal ids under distinct keys stay distinct
			// associations; the ranker looks at the values only
			c := col.Catalog[int, int](notation).Make()
			for i, v := range work {
				c.SetValue(i, v)
			}
			switch op {
			case "sort":
				c.SortValuesWithRanker(func(x, y col.AssociationLike[int, int]) age.Rank {
					return ranker(x.GetValue(), y.GetValue())
				})
			case "reverse":
				c.ReverseValues()
			case "reverse2":
				c.ReverseValues()
				c.ReverseValues()
			case "shuffle":
				c.ShuffleValues()
			}
			res = []int{}
			for _, a := range c.AsArray() {
				res = append(res, a.GetValue())
				if got := c.GetValue(a.GetKey()); got != a.GetValue() || work[a.GetKey()] != got {
					panic("catalog mapping changed by " + op)
				}
			}
		}
	})
	j := J{"k": "sort", "case": caseID, "via": via, "op": op, "rk": rk, "in": ints(in), "out": cr.kind, "n": len(in)}
	if cr.kind == "ret" {
		j["res"] = ints(res)
	} else {
		j["pc"], j["msg"] = cr.pc, cr.msg
	}
	out.emit(j)
}

func runC09(tier string, seed int64, out *Out) {
	rng := newRng(seed)
	caseID := 0
	maxLen := 6
	if tier == "thorough" {
		maxLen = 9
	}
	// exhaustive: all arrays of length 0..maxLen over a 4-value alphabet, through the sorter
	alphabet := []int{1, 4, 5, 9} // 4 and 5 tie under the coarse ranker
	var rec func(cur []int)
	rec = func(cur []int) {
		caseID++
		for _, rk := range rankerNames {
			if len(cur) > 6 && (rk == "const" || rk == "gt" || rk == "stateful") {
				continue
			}
			sortLine(out, caseID, "sorter", "sort", rk, cur)
		}
		if len(cur) <= 5 {
			sortLine(out, caseID, "sorter", "reverse", "nat", cur)
			sortLine(out, caseID, "sorter", "reverse2", "nat", cur)
			sortLine(out, caseID, "sorter", "shuffle", "nat", cur)
		}
		if len(cur) == maxLen {
			return
		}
		for _, a := range alphabet {
			rec(append(append([]int{}, cur...), a))
		}
	}
	rec([]int{})
	// collections: all arrays up to length 4, every ranker and operation
	var rec2 func(cur []int)
	rec2 = func(cur []int) {
		caseID++
		for _, via := range []string{"array", "list", "catalog"} {
			for _, rk := range rankerNames {
				sortLine(out, caseID, via, "sort", rk, cur)
			}
			for _, op := range []string{"reverse", "reverse2", "shuffle"} {
				sortLine(out, caseID, via, op, "nat", cur)
			}
		}
		if len(cur) == 4 {
			return
		}
		for _, a := range alphabet[:3] {
			rec2(append(append([]int{}, cur...), a))
		}
	}
	rec2([]int{})
	// random shapes up to length 5000 (quick: 600)
	maxN, reps := 600, 40
	if tier == "thorough" {
		maxN, reps = 5000, 300
	}
	for r := 0; r < reps; r++ {
		n := rng.pick([]int{0, 1, 2, 3, 7, 8, 9, 15, 16, 17, 31, 32, 33, 63, 64, 65, 100, 127, 128, 129, 255, 257, maxN, rng.Intn(maxN + 1)})
		xs := make([]int, n)
		shape := rng.Intn(5)
		for i := range xs {
			switch shape {
			case 0:
				xs[i] = rng.Intn(8) // heavy duplication
			case 1:
				xs[i] = i / 2 // presorted with duplicates
			case 2:
				xs[i] = (n - i) / 2 // reversed
			case 3:
				xs[i] = i % 7 // saw-tooth
			default:
				xs[i] = rng.Intn(1000)
			}
		}
		caseID++
		via := []string{"sorter", "array", "list", "catalog"}[rng.Intn(4)]
		if via == "catalog" && n > 400 {
			via = "list"
		}
		for _, rk := range rankerNames {
			sortLine(out, caseID, via, "sort", rk, xs)
		}
		sortLine(out, caseID, via, "reverse", "nat", xs)
		sortLine(out, caseID, via, "reverse2", "nat", xs)
		sortLine(out, caseID, via, "shuffle", "nat", xs)
	}
	// a sorted array stays in use while others are sorted (lengths around every pass count)
	for n := 0; n <= 40; n++ {
		xs := make([]int, n)
		for i := range xs {
			xs[i] = (i*37 + 11) % 23
		}
		caseID++
		for _, rk := range []string{"nat", "rev", "coarse"} {
			sortLine(out, caseID, "sorter-then-others", "sort", rk, xs)
		}
	}
	// large arrays (every tier): the sorter may treat them differently from small ones; rankers that are total orders,
	// one of them keeping scratch state between the two reads of a call
	for _, n := range []int{4095, 4096, 4097, 9000} {
		xs := make([]int, n)
		for i := range xs {
			xs[i] = (i*7919 + 13) % 10007
		}
		for _, via := range []string{"sorter", "list"} {
			caseID++
			for _, rk := range []string{"scratch", "nat", "stateful"} {
				sortLine(out, caseID, via, "sort", rk, xs)
			}
		}
	}
}
