/-
  Models of `queueClass_.Split` and of Split followed by `queueClass_.Join`, in the style of
  `Pipes.lean`: networks of atomic bounded FIFO queues, the helper goroutines' loops followed
  statement by statement (the outputs iterator is the explicit `turn`), feeder and readers as
  environment, every interleaving a path of the step relation.  Ghost fields (`dist`, `tk`,
  `later`) record what has been distributed / taken so far; they do not influence any step.
-/
import CollectionModel.Model.Pipes
namespace CM
namespace Pipes

/-- program counter of the Split helper -/
inductive HS (α : Type)
  | recv                 -- `input.RemoveHead()`
  | send (v : α)         -- about to `output.AddValue(v)` on the output the iterator points at
  | close (k : Nat)      -- closing loop
  | done
  deriving Repr

/-- `iterator.GetNext(); if !iterator.HasNext() { iterator.ToStart() }` -/
def nextTurn (n turn : Nat) : Nat := if turn + 1 < n then turn + 1 else 0

structure SS (α : Type) where
  rest : List α
  inq : List α
  inClosed : Bool
  h : HS α
  turn : Nat
  buf : Nat → List α
  oclosed : Nat → Bool
  reads : Nat → List α
  readerDone : Nat → Bool
  dist : List α              -- ghost: the values sent to the outputs so far, in order

def pendS {α : Type} : HS α → List α
  | .send v => [v]
  | _ => []

inductive SStep {α : Type} (n cap : Nat) : SS α → SS α → Prop
  | feed (s : SS α) (v : α) (r : List α) (h1 : s.rest = v :: r) (h2 : s.inq.length < cap) (h3 : s.inClosed = false) :
      SStep n cap s { s with rest := r, inq := s.inq ++ [v] }
  | feedClose (s : SS α) (h1 : s.rest = []) (h3 : s.inClosed = false) :
      SStep n cap s { s with inClosed := true }
  | hRecv (s : SS α) (v : α) (q : List α) (h1 : s.h = .recv) (h2 : s.inq = v :: q) :
      SStep n cap s { s with inq := q, h := .send v }
  | hRecvClosed (s : SS α) (h1 : s.h = .recv) (h2 : s.inq = []) (h3 : s.inClosed = true) :
      SStep n cap s { s with h := .close 0 }
  | hSend (s : SS α) (v : α) (h1 : s.h = .send v) (h2 : (s.buf s.turn).length < cap) (h3 : s.oclosed s.turn = false) :
      SStep n cap s { s with buf := upd s.buf s.turn (s.buf s.turn ++ [v]), dist := s.dist ++ [v],
                             turn := nextTurn n s.turn, h := .recv }
  | hClose (s : SS α) (k : Nat) (h1 : s.h = .close k) (hk : k < n) :
      SStep n cap s { s with oclosed := upd s.oclosed k true, h := if k + 1 < n then .close (k + 1) else .done }
  | read (s : SS α) (k : Nat) (v : α) (b : List α) (hk : k < n) (h1 : s.buf k = v :: b) (h2 : s.readerDone k = false) :
      SStep n cap s { s with buf := upd s.buf k b, reads := upd s.reads k (s.reads k ++ [v]) }
  | readClosed (s : SS α) (k : Nat) (hk : k < n) (h1 : s.buf k = []) (h2 : s.oclosed k = true) (h3 : s.readerDone k = false) :
      SStep n cap s { s with readerDone := upd s.readerDone k true }

def initSS {α : Type} (input : List α) : SS α :=
  { rest := input, inq := [], inClosed := false, h := .recv, turn := 0, buf := fun _ => [], oclosed := fun _ => false,
    reads := fun _ => [], readerDone := fun _ => false, dist := [] }

inductive SReach {α : Type} (n cap : Nat) (s0 : SS α) : SS α → Prop
  | init : SReach n cap s0 s0
  | step {s t} : SReach n cap s0 s → SStep n cap s t → SReach n cap s0 t

/-! ### Split followed by Join -/

/-- program counter of the Join helper -/
inductive HJ (α : Type)
  | recv                 -- `input.RemoveHead()` on the input the iterator points at
  | send (v : α)         -- about to `output.AddValue(v)`
  | close                -- an input was closed and drained: about to close the output
  | done
  deriving Repr

def pendJ {α : Type} : HJ α → List α
  | .send v => [v]
  | _ => []

structure SJ (α : Type) where
  rest : List α
  inq : List α
  inClosed : Bool
  h : HS α
  turn : Nat
  mid : Nat → List α           -- the queues between Split and Join
  mclosed : Nat → Bool
  hj : HJ α
  turnJ : Nat
  ob : List α                  -- the joined output queue
  oClosed : Bool
  rd : List α                  -- what the reader of the joined queue has received
  rdDone : Bool
  dist : List α                -- ghost: sent by Split
  tk : List α                  -- ghost: taken by Join
  later : List α               -- ghost: sent by Split and not yet taken by Join

inductive JStep {α : Type} (n cap : Nat) : SJ α → SJ α → Prop
  | feed (s : SJ α) (v : α) (r : List α) (h1 : s.rest = v :: r) (h2 : s.inq.length < cap) (h3 : s.inClosed = false) :
      JStep n cap s { s with rest := r, inq := s.inq ++ [v] }
  | feedClose (s : SJ α) (h1 : s.rest = []) (h3 : s.inClosed = false) :
      JStep n cap s { s with inClosed := true }
  | hRecv (s : SJ α) (v : α) (q : List α) (h1 : s.h = .recv) (h2 : s.inq = v :: q) :
      JStep n cap s { s with inq := q, h := .send v }
  | hRecvClosed (s : SJ α) (h1 : s.h = .recv) (h2 : s.inq = []) (h3 : s.inClosed = true) :
      JStep n cap s { s with h := .close 0 }
  | hSend (s : SJ α) (v : α) (h1 : s.h = .send v) (h2 : (s.mid s.turn).length < cap) (h3 : s.mclosed s.turn = false) :
      JStep n cap s { s with mid := upd s.mid s.turn (s.mid s.turn ++ [v]), dist := s.dist ++ [v], later := s.later ++ [v],
                             turn := nextTurn n s.turn, h := .recv }
  | hClose (s : SJ α) (k : Nat) (h1 : s.h = .close k) (hk : k < n) :
      JStep n cap s { s with mclosed := upd s.mclosed k true, h := if k + 1 < n then .close (k + 1) else .done }
  | jRecv (s : SJ α) (v : α) (b : List α) (h1 : s.hj = .recv) (h2 : s.mid s.turnJ = v :: b) :
      JStep n cap s { s with mid := upd s.mid s.turnJ b, tk := s.tk ++ [v], later := s.later.tail, hj := .send v }
  | jRecvClosed (s : SJ α) (h1 : s.hj = .recv) (h2 : s.mid s.turnJ = []) (h3 : s.mclosed s.turnJ = true) :
      JStep n cap s { s with hj := .close }
  | jSend (s : SJ α) (v : α) (h1 : s.hj = .send v) (h2 : s.ob.length < cap) (h3 : s.oClosed = false) :
      JStep n cap s { s with ob := s.ob ++ [v], turnJ := nextTurn n s.turnJ, hj := .recv }
  | jClose (s : SJ α) (h1 : s.hj = .close) :
      JStep n cap s { s with oClosed := true, hj := .done }
  | read (s : SJ α) (v : α) (b : List α) (h1 : s.ob = v :: b) (h2 : s.rdDone = false) :
      JStep n cap s { s with ob := b, rd := s.rd ++ [v] }
  | readClosed (s : SJ α) (h1 : s.ob = []) (h2 : s.oClosed = true) (h3 : s.rdDone = false) :
      JStep n cap s { s with rdDone := true }

def initSJ {α : Type} (input : List α) : SJ α :=
  { rest := input, inq := [], inClosed := false, h := .recv, turn := 0, mid := fun _ => [], mclosed := fun _ => false,
    hj := .recv, turnJ := 0, ob := [], oClosed := false, rd := [], rdDone := false, dist := [], tk := [], later := [] }

inductive JReach {α : Type} (n cap : Nat) (s0 : SJ α) : SJ α → Prop
  | init : JReach n cap s0 s0
  | step {s t} : JReach n cap s0 s → JStep n cap s t → JReach n cap s0 t

end Pipes
end CM
