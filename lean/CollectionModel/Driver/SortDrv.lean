/- driver for sorter lines (C09) -/
import Driver.SeqDrv
open Lean CM CM.Sorter

namespace Drv

/-- the pure rankers shared with the Go harness (same arithmetic on both sides) -/
def sortRanker (name : String) : Int → Int → Rank :=
  match name with
  | "nat" => rankInt
  | "scratch" => rankInt
  | "rev" => fun a b => rankInt b a
  | "coarse" => fun a b => rankInt (a / 3) (b / 3)
  | "const" => fun _ _ => .eq
  | "lt" => fun _ _ => .lt
  | "gt" => fun _ _ => .gt
  | _ => fun a b => match (a * 31 + b * 17 + a * b) % 3 with | 0 => .lt | 1 => .eq | _ => .gt

def rankerConsistent (name : String) : Bool := name == "nat" || name == "scratch" || name == "rev" || name == "coarse" || name == "const"

/-- rank class of a value under a consistent ranker (ties are interchangeable) -/
def rankClass (name : String) (a : Int) : Int :=
  match name with
  | "coarse" => a / 3
  | "const" => 0
  | _ => a

def sortLine (j : Json) : String :=
  let inp := ints j "in"
  let rk := str j "rk"
  let rank := sortRanker rk
  let op := str j "op"
  if str j "out" != "ret" then verdict false false s!"C09/{op}/{str j "out"}" "" else
  let got := ints j "res"
  let direct := str j "via" == "sorter"
  match op with
  | "sort" =>
    let m := if direct then sortValues rank inp else arraySort rank inp
    let perm := got.isPerm inp
    let asc := !rankerConsistent rk || SeqSpec.ascending rank got
    let corr := if rankerConsistent rk then m.map (rankClass rk) == got.map (rankClass rk) && perm
                else m.isPerm got
    verdict corr (perm && asc) s!"C09/sort/{rk}/{if perm then "order" else "perm"}" s!"{m}"
  | "reverse" =>
    let m := reverseValues inp
    verdict (m == got) (got == inp.reverse) "C09/reverse" s!"{m}"
  | "reverse2" =>
    let m := reverseValues (reverseValues inp)
    verdict (m == got) (got == inp) "C09/reverse2" s!"{m}"
  | "shuffle" => verdict true (got.isPerm inp) "C09/shuffle" "-"
  | _ => verdict false true "bad-op" ""

end Drv
