/-
  Completeness of the parse methods on the token sequences of sentences: by structural
  recursion over the sentence, every method consumes exactly the tokens of its part of the
  sentence and returns that part's intended meaning.
-/
import CollectionModel.Lemmas.ParseComplete
namespace CM
namespace Cdcn

variable (env : Env)

theorem mkCollection_eq (ctx : List Nat) (items : List Val) (tok : Option Token) (s : PS) (x : Val)
    (h : collOf env.mkSet ctx items = some x) : mkCollection env ctx items tok s = .ok x tok s := by
  unfold collOf at h
  unfold mkCollection
  simp only [] at h ⊢
  by_cases c1 : ctx = "Array".toList.map ch
  · simp only [c1, ↓reduceIte] at h ⊢; injection h with h; rw [h]
  simp only [c1, ↓reduceIte] at h ⊢
  by_cases c2 : ctx = "Catalog".toList.map ch
  · simp only [c2, ↓reduceIte] at h ⊢
    split at h
    · rename_i ha; simp only [ha, ↓reduceIte]; injection h with h; rw [h]
    · cases h
  simp only [c2, ↓reduceIte] at h ⊢
  by_cases c3 : ctx = "Map".toList.map ch
  · simp only [c3, ↓reduceIte] at h ⊢
    split at h
    · rename_i ha; simp only [ha, ↓reduceIte]; injection h with h; rw [h]
    · cases h
  simp only [c3, ↓reduceIte] at h ⊢
  by_cases c4 : ctx = "List".toList.map ch
  · simp only [c4, ↓reduceIte] at h ⊢; injection h with h; rw [h]
  simp only [c4, ↓reduceIte] at h ⊢
  by_cases c5 : ctx = "Queue".toList.map ch
  · simp only [c5, ↓reduceIte] at h ⊢; injection h with h; rw [h]
  simp only [c5, ↓reduceIte] at h ⊢
  by_cases c6 : ctx = "Set".toList.map ch
  · simp only [c6, ↓reduceIte] at h ⊢; rw [h]
  simp only [c6, ↓reduceIte] at h ⊢
  by_cases c7 : ctx = "Stack".toList.map ch
  · simp only [c7, ↓reduceIte] at h ⊢; injection h with h; rw [h]
  · simp only [c7, ↓reduceIte] at h; cases h

theorem delim_ne (t : Token) (a b : String) (h : isDelim t a = true) (hab : a.toList.map ch ≠ b.toList.map ch) :
    isDelim t b = false := by
  simp only [isDelim, Bool.and_eq_true, beq_iff_eq] at h
  simp only [isDelim, h.1, beq_self_eq_true, Bool.true_and, beq_eq_false_iff_ne, h.2]
  exact hab

theorem delim_not_eol (t : Token) (a : String) (h : isDelim t a = true) : isEol t = false := by
  simp only [isDelim, Bool.and_eq_true, beq_iff_eq] at h
  simp [isEol, h.1]

theorem eol_not_delim (t : Token) (a : String) (h : isEol t = true) : isDelim t a = false := by
  simp only [isEol, beq_iff_eq] at h
  simp [isDelim, h]

theorem literal_not_delim (t : Token) (a : String) (h : isLiteralKind t.tt = true) : isDelim t a = false := by
  have : (t.tt == TT.delimiter) = false := by cases htt : t.tt <;> simp_all [isLiteralKind]
  simp [isDelim, this]

theorem literal_not_eol (t : Token) (h : isLiteralKind t.tt = true) : isEol t = false := by
  cases htt : t.tt <;> simp_all [isLiteralKind, isEol]

theorem delim_matches (t : Token) (a : String) (h : isDelim t a = true) : tokMatches t TT.delimiter (some a) = true := by
  simpa [tokMatches, isDelim] using h

theorem delim_mismatch (t : Token) (a : String) (h : isDelim t a = false) : tokMatches t TT.delimiter (some a) = false := by
  simpa [tokMatches, isDelim] using h

theorem eol_matches (t : Token) (h : isEol t = true) : tokMatches t TT.eol none = true := by
  simpa [tokMatches, isEol] using h

theorem eol_mismatch (t : Token) (h : isEol t = false) : tokMatches t TT.eol none = false := by
  simpa [tokMatches, isEol] using h

/-- the first token after a first value in an inline list: a comma or the closing bracket -/
theorem after_inline (more : SVals) (rest : List Token) (rb : Token) (r' : List Token) (hg : more.Good (fun t => isDelim t ","))
    (hr : rest = rb :: r') (hrb : isDelim rb "]" = true) :
    ∃ u r2, more.toks ++ rest = u :: r2 ∧ isDelim u ":" = false ∧ u.tt ≠ .error := by
  cases more with
  | nil => exact ⟨rb, r', by simp [SVals.toks, hr], delim_ne rb "]" ":" hrb (by decide), (delim_not_literal rb "]" hrb).2⟩
  | cons sep v rest' =>
    simp only [SVals.Good] at hg
    exact ⟨sep, v.toks ++ (rest'.toks ++ rest), by simp [SVals.toks], delim_ne sep "," ":" hg.1 (by decide), (delim_not_literal sep "," hg.1).2⟩

/-- ... in a multi-line list: an end of line -/
theorem after_multi (more : SVals) (last : Token) (rest : List Token) (hg : more.Good isEol) (hl : isEol last = true) :
    ∃ u r2, more.toks ++ last :: rest = u :: r2 ∧ isDelim u ":" = false ∧ u.tt ≠ .error := by
  cases more with
  | nil => exact ⟨last, rest, by simp [SVals.toks], eol_not_delim last ":" hl, (eol_not_literal last hl).2⟩
  | cons sep v rest' =>
    simp only [SVals.Good] at hg
    exact ⟨sep, v.toks ++ (rest'.toks ++ last :: rest), by simp [SVals.toks], eol_not_delim sep ":" hg.1, (eol_not_literal sep hg.1).2⟩


/-- the closing bracket that follows the items of a sequence -/
def ClosesWith (rest : List Token) : Prop := ∃ rb r', rest = rb :: r' ∧ isDelim rb "]" = true

theorem closes_not_comma {rest : List Token} (h : ClosesWith rest) :
    ∃ r0 r', rest = r0 :: r' ∧ isDelim r0 "," = false ∧ r0.tt ≠ .error ∧ isLiteralKind r0.tt = false ∧ isDelim r0 "[" = false := by
  obtain ⟨rb, r', hr, hb⟩ := h
  exact ⟨rb, r', hr, delim_ne rb "]" "," hb (by decide), (delim_not_literal rb "]" hb).2, (delim_not_literal rb "]" hb).1,
    delim_ne rb "]" "[" hb (by decide)⟩

mutual

theorem cValue (hcap : 3 < env.stackSize) : ∀ (v : SValue) (f : Nat) (s : PS) (rest : List Token) (x : Val),
    v.Good → v.mean env = some x → stream s = v.toks ++ rest → WF env s → Fuel 2 f s → Done env (parseValue env f s) x rest
  | .lit t, f, s, rest, x, hg, hm, hs, hw, hf => by
    have hf8 := stream_nonempty_fuel env hw hf
    obtain ⟨g, rfl⟩ : ∃ g, f = g + 1 := ⟨f - 1, by omega⟩
    simp only [SValue.Good] at hg
    simp only [SValue.mean] at hm
    simp only [SValue.toks, List.singleton_append] at hs
    obtain ⟨s1, hi, hs1, hw1, _⟩ := parseIntrinsic_hit env hcap s hw t rest x hs hg hm
    exact ⟨some t, s1, by simp only [parseValue, hi], hs1, hw1, tokOk_of_mem env s hw t (by rw [hs]; simp)⟩
  | .coll lb items rb lp ty rp, f, s, rest, x, hg, hm, hs, hw, hf => by
    have hf8 := stream_nonempty_fuel env hw hf
    obtain ⟨g, rfl⟩ : ∃ g, f = g + 3 := ⟨f - 3, by omega⟩
    simp only [SValue.Good] at hg
    obtain ⟨hlb, hgi, hrb, hlp, hty, hrp⟩ := hg
    simp only [SValue.mean] at hm
    cases hmi : items.mean env with
    | none => rw [hmi] at hm; cases hm
    | some vs =>
      rw [hmi] at hm
      simp only at hm
      simp only [SValue.toks, List.cons_append, List.append_assoc] at hs
      -- not a literal: the collection branch
      obtain ⟨s1, hi, hs1, hw1, hk1⟩ := parseIntrinsic_miss env hcap s hw lb _ hs (delim_not_literal lb "[" hlb).1 (delim_not_literal lb "[" hlb).2
      obtain ⟨s2, hp2, hs2, hw2, _⟩ := parseToken_hit env hcap TT.delimiter (some "[") s1 hw1 lb _ (by rw [hs1, hs])
        (delim_matches lb "[" hlb) (by decide) (by decide)
      have hlen : (stream s).length = (stream s2).length + 1 := by rw [hs, hs2]; simp
      obtain ⟨tok3, s3, hr3, hs3, hw3, ht3⟩ := cItems hcap items g s2 (rb :: lp :: ty :: rp :: rest) vs hgi hmi
        (by rw [hs2]; simp) ⟨rb, _, rfl, hrb⟩ hw2 (by unfold Fuel at hf ⊢; omega)
      obtain ⟨s4, hp4, hs4, hw4, _⟩ := parseToken_hit env hcap TT.delimiter (some "]") s3 hw3 rb _ hs3
        (delim_matches rb "]" hrb) (by decide) (by decide)
      obtain ⟨s5, hp5, hs5, hw5, _⟩ := parseToken_hit env hcap TT.delimiter (some "(") s4 hw4 lp _ hs4
        (delim_matches lp "(" hlp) (by decide) (by decide)
      obtain ⟨s6, hp6, hs6, hw6, _⟩ := parseToken_hit env hcap TT.type none s5 hw5 ty _ hs5
        (by simp [tokMatches, hty]) (by decide) (by decide)
      obtain ⟨s7, hp7, hs7, hw7, _⟩ := parseToken_hit env hcap TT.delimiter (some ")") s6 hw6 rp _ hs6
        (delim_matches rp ")" hrp) (by decide) (by decide)
      refine ⟨some rp, s7, ?_, hs7, hw7, tokOk_of_mem env s hw rp (by rw [hs]; simp)⟩
      simp only [parseValue, hi, parseCollection, parseSequence, hp2, hr3, hp4, hp5, hp6, hp7]
      exact mkCollection_eq env ty.value vs (some rp) s7 x hm

theorem cItems (hcap : 3 < env.stackSize) : ∀ (i : SItems) (f : Nat) (s : PS) (rest : List Token) (xs : List Val),
    i.Good → i.mean env = some xs → stream s = i.toks ++ rest → ClosesWith rest → WF env s → Fuel 5 f s →
    Done env (parseItems env f s) xs rest
  | .noValues, f, s, rest, xs, _, hm, hs, hc, hw, hf => by
    have hf8 := stream_nonempty_fuel env hw hf
    obtain ⟨g, rfl⟩ : ∃ g, f = g + 4 := ⟨f - 4, by omega⟩
    simp only [SItems.mean] at hm; injection hm with hm; subst hm
    simp only [SItems.toks, List.nil_append] at hs
    obtain ⟨rb, r', hr, hb⟩ := hc
    rw [hr] at hs
    obtain ⟨tok1, s1, hr1, hs1, hw1, hk1, _⟩ := parseAssociations_refuse_nonlit env hcap g s hw rb r' hs
      (delim_not_literal rb "]" hb).1 (delim_ne rb "]" ":" hb (by decide)) (delim_not_eol rb "]" hb) (delim_not_literal rb "]" hb).2
    obtain ⟨s2, hp2, hs2, hw2, hk2⟩ := parseToken_hit env hcap TT.delimiter (some "]") s1 hw1 rb r' (by rw [hs1, hs])
      (delim_matches rb "]" hb) (by decide) (by decide)
    have hk3 : s2.stack.length ≤ 2 := by have := hw1.stk; omega
    refine ⟨some rb, { s2 with stack := rb :: s2.stack }, ?_, by rw [hr, ← hs2]; simp [stream], ?_, tokOk_of_mem env s hw rb (by rw [hs]; simp)⟩
    · simp only [parseItems, hr1, parseValues, hp2]
      rw [putBack_ok env hcap rb s2 _ (by omega)]
    · exact wf_push env s1 rb r' hw1 (by rw [hs1, hs]) s2 hs2 (delim_not_literal rb "]" hb).2 hw2.noErr hk3
  | .inlineValues v more, f, s, rest, xs, hg, hm, hs, hc, hw, hf => by
    have hf8 := stream_nonempty_fuel env hw hf
    obtain ⟨g, rfl⟩ : ∃ g, f = g + 4 := ⟨f - 4, by omega⟩
    simp only [SItems.Good] at hg
    obtain ⟨hgv, hgm⟩ := hg
    simp only [SItems.mean] at hm
    cases hmv : v.mean env with
    | none => rw [hmv] at hm; simp at hm
    | some x =>
      cases hmm : more.mean env with
      | none => rw [hmv, hmm] at hm; simp at hm
      | some ys =>
        rw [hmv, hmm] at hm; simp only at hm; injection hm with hm; subst hm
        simp only [SItems.toks, List.append_assoc] at hs
        obtain ⟨rb, r', hr, hb⟩ := hc
        -- the associations alternatives fail and restore the stream
        have hrefuse : ∃ d, Refused env (parseAssociations env (g + 3) s) s d := by
          rcases SValue.head_spec v hgv with ⟨t, rfl, hl⟩ | ⟨t, ts, htoks, hlb⟩
          · obtain ⟨u, r2, hu, hcolon, hune⟩ := after_inline more rest rb r' hgm hr hb
            simp only [SValue.mean] at hmv
            simp only [SValue.toks, List.singleton_append] at hs
            rw [hu] at hs
            exact ⟨2, parseAssociations_refuse_lit env hcap g s hw t u r2 x hs hl hmv hcolon hune⟩
          · rw [htoks] at hs
            simp only [List.cons_append] at hs
            exact ⟨1, parseAssociations_refuse_nonlit env hcap g s hw t _ hs (delim_not_literal t "[" hlb).1
              (delim_ne t "[" ":" hlb (by decide)) (delim_not_eol t "[" hlb) (delim_not_literal t "[" hlb).2⟩
        obtain ⟨d, tok1, s1, hr1, hs1, hw1, hk1, _⟩ := hrefuse
        -- the first token is not the closing bracket
        have hhead : ∃ t ts, v.toks = t :: ts ∧ isDelim t "]" = false ∧ t.tt ≠ .error := by
          rcases SValue.head_spec v hgv with ⟨t, rfl, hl⟩ | ⟨t, ts, htoks, hlb⟩
          · exact ⟨t, [], by simp [SValue.toks], literal_not_delim t "]" hl, literal_ne_error t hl⟩
          · exact ⟨t, ts, htoks, delim_ne t "[" "]" hlb (by decide), (delim_not_literal t "[" hlb).2⟩
        obtain ⟨t, ts, htoks, hnb, htne⟩ := hhead
        obtain ⟨s2, hp2, hs2, hw2, hk2⟩ := parseToken_miss env hcap TT.delimiter (some "]") s1 hw1 t (ts ++ (more.toks ++ rest))
          (by rw [hs1, hs, htoks]; simp) (delim_mismatch t "]" hnb) htne
        obtain ⟨tok3, s3, hr3, hs3, hw3, ht3⟩ := cValue hcap v (g + 1) s2 (more.toks ++ rest) x hgv hmv (by rw [hs2, hs1, hs]) hw2
          (by unfold Fuel at hf ⊢; rw [hs2, hs1]; omega)
        have hlen3 : (stream s3).length ≤ (stream s).length := by rw [hs3, hs]; simp
        obtain ⟨r0, r'', hr0, hnc, hr0e, _, _⟩ := closes_not_comma ⟨rb, r', hr, hb⟩
        obtain ⟨tok4, s4, hr4, hs4, hw4, ht4⟩ := cIVL hcap more (g + 1) s3 rest [] x ys hgm hmm hs3 r0 r'' hr0 hnc hr0e hw3
          (by unfold Fuel at hf ⊢; omega)
        refine ⟨tok4, s4, ?_, hs4, hw4, ht4⟩
        simp only [parseItems, hr1, parseValues, hp2, parseInlineValues, hr3, hr4, List.nil_append]
  | .multiValues e v more last, f, s, rest, xs, hg, hm, hs, hc, hw, hf => by
    have hf8 := stream_nonempty_fuel env hw hf
    obtain ⟨g, rfl⟩ : ∃ g, f = g + 6 := ⟨f - 6, by omega⟩
    simp only [SItems.Good] at hg
    obtain ⟨hge, hgv, hgm, hgl⟩ := hg
    simp only [SItems.mean] at hm
    cases hmv : v.mean env with
    | none => rw [hmv] at hm; simp at hm
    | some x =>
      cases hmm : more.mean env with
      | none => rw [hmv, hmm] at hm; simp at hm
      | some ys =>
        rw [hmv, hmm] at hm; simp only at hm; injection hm with hm; subst hm
        simp only [SItems.toks, List.cons_append, List.append_assoc, List.singleton_append] at hs
        obtain ⟨hel, hene⟩ := eol_not_literal e hge
        -- the associations alternatives fail behind the end of line, which is put back
        have hassoc : ∀ s3, WF env s3 → stream s3 = v.toks ++ (more.toks ++ last :: rest) →
            Refused env (parseAssociation env (g + 2 + 1) s3) s3 2 := by
          intro s3 hw3 hs3
          rcases SValue.head_spec v hgv with ⟨t, rfl, hl⟩ | ⟨t, ts, htoks, hlb⟩
          · obtain ⟨u, r2, hu, hcolon, hune⟩ := after_multi more last rest hgm hgl
            simp only [SValue.mean] at hmv
            simp only [SValue.toks, List.singleton_append] at hs3
            rw [hu] at hs3
            exact parseAssociation_refuse2 env hcap (g + 2) s3 hw3 t u r2 x hs3 hl hmv hcolon hune
          · rw [htoks] at hs3
            simp only [List.cons_append] at hs3
            obtain ⟨tok, s', h1, h2, h3, h4, h5⟩ := parseAssociation_refuse1 env hcap (g + 2) s3 hw3 t _ hs3
              (delim_not_literal t "[" hlb).1 (delim_not_literal t "[" hlb).2
            exact ⟨tok, s', h1, h2, h3, by omega, h5⟩
        obtain ⟨tok1, s1, hr1, hs1, hw1, hk1, _⟩ := parseAssociations_refuse_eol env hcap (g + 2) s hw e _ hs hge hassoc
        -- values: not "]", not an inline value, so the multi-line form
        obtain ⟨s2, hp2, hs2, hw2, hk2⟩ := parseToken_miss env hcap TT.delimiter (some "]") s1 hw1 e _ (by rw [hs1, hs])
          (delim_mismatch e "]" (eol_not_delim e "]" hge)) hene
        obtain ⟨tok3, s3, hr3, hs3, hw3, hk3, _⟩ := parseValue_refuse env hcap g s2 hw2 e _ (by rw [hs2, hs1, hs]) hel
          (eol_not_delim e "[" hge) hene
        obtain ⟨s4, hp4, hs4, hw4, hk4⟩ := parseToken_hit env hcap TT.eol none s3 hw3 e _ (by rw [hs3, hs2, hs1, hs])
          (eol_matches e hge) (by decide) (by decide)
        have hlen4 : (stream s).length = (stream s4).length + 1 := by rw [hs, hs4]; simp
        obtain ⟨tok5, s5, hr5, hs5, hw5, ht5⟩ := cValue hcap v (g + 3) s4 (more.toks ++ last :: rest) x hgv hmv hs4 hw4
          (by unfold Fuel at hf ⊢; omega)
        have hlen5 : (stream s5).length ≤ (stream s4).length := by rw [hs5, hs4]; simp
        obtain ⟨r0, r'', hr0, _, hr0e, hr0l, hr0b⟩ := closes_not_comma hc
        obtain ⟨tok6, s6, hr6, hs6, hw6, ht6⟩ := cMVL hcap more (g + 3) s5 rest last [] x ys hgm hmm hs5 hgl r0 r'' hr0 hr0l hr0b hr0e hw5
          (by unfold Fuel at hf ⊢; omega)
        refine ⟨tok6, s6, ?_, hs6, hw6, ht6⟩
        simp only [parseItems, hr1, parseValues, hp2, parseInlineValues, hr3, parseMultilineValues, hp4, hr5, hr6, List.nil_append]
  | .noAssocs colon, f, s, rest, xs, hg, hm, hs, hc, hw, hf => by
    have hf8 := stream_nonempty_fuel env hw hf
    obtain ⟨g, rfl⟩ : ∃ g, f = g + 2 := ⟨f - 2, by omega⟩
    simp only [SItems.Good] at hg
    simp only [SItems.mean] at hm; injection hm with hm; subst hm
    simp only [SItems.toks, List.singleton_append] at hs
    obtain ⟨s1, hp1, hs1, hw1, _⟩ := parseToken_hit env hcap TT.delimiter (some ":") s hw colon rest hs
      (delim_matches colon ":" hg) (by decide) (by decide)
    exact ⟨some colon, s1, by simp only [parseItems, parseAssociations, hp1], hs1, hw1, tokOk_of_mem env s hw colon (by rw [hs]; simp)⟩
  | .inlineAssocs a more, f, s, rest, xs, hg, hm, hs, hc, hw, hf => by
    have hf8 := stream_nonempty_fuel env hw hf
    obtain ⟨g, rfl⟩ : ∃ g, f = g + 3 := ⟨f - 3, by omega⟩
    simp only [SItems.Good] at hg
    obtain ⟨hga, hgm⟩ := hg
    simp only [SItems.mean] at hm
    cases hma : a.mean env with
    | none => rw [hma] at hm; simp at hm
    | some p =>
      cases hmm : more.mean env with
      | none => rw [hma, hmm] at hm; simp at hm
      | some ps =>
        rw [hma, hmm] at hm; simp only at hm; injection hm with hm; subst hm
        simp only [SItems.toks, List.append_assoc] at hs
        cases a with
        | mk key colon v =>
          simp only [SAssoc.Good] at hga
          simp only [SAssoc.toks, List.cons_append] at hs
          have hkne := literal_ne_error key hga.1
          obtain ⟨s1, hp1, hs1, hw1, hk1⟩ := parseToken_miss env hcap TT.delimiter (some ":") s hw key _ hs
            (delim_mismatch key ":" (literal_not_delim key ":" hga.1)) hkne
          obtain ⟨tok2, s2, hr2, hs2, hw2, ht2⟩ := cAssoc hcap (.mk key colon v) g s1 (more.toks ++ rest) p
            (by simp only [SAssoc.Good]; exact hga) hma (by rw [hs1, hs]; simp [SAssoc.toks]) hw1
            (by unfold Fuel at hf ⊢; rw [hs1]; omega)
          have hlen2 : (stream s2).length ≤ (stream s).length := by rw [hs2, hs]; simp; omega
          obtain ⟨r0, r'', hr0, hnc, hr0e, _, _⟩ := closes_not_comma hc
          obtain ⟨tok3, s3, hr3, hs3, hw3, ht3⟩ := cIAL hcap more g s2 rest [] p.1 p.2 ps hgm hmm hs2 r0 r'' hr0 hnc hr0e hw2
            (by unfold Fuel at hf ⊢; omega)
          refine ⟨tok3, s3, ?_, hs3, hw3, ht3⟩
          simp only [parseItems, parseAssociations, hp1, parseInlineAssociations, hr2, hr3]
          simp [Val.catalogOf, List.foldl_cons]
  | .multiAssocs e a more last, f, s, rest, xs, hg, hm, hs, hc, hw, hf => by
    have hf8 := stream_nonempty_fuel env hw hf
    obtain ⟨g, rfl⟩ : ∃ g, f = g + 4 := ⟨f - 4, by omega⟩
    simp only [SItems.Good] at hg
    obtain ⟨hge, hga, hgm, hgl⟩ := hg
    simp only [SItems.mean] at hm
    cases hma : a.mean env with
    | none => rw [hma] at hm; simp at hm
    | some p =>
      cases hmm : more.mean env with
      | none => rw [hma, hmm] at hm; simp at hm
      | some ps =>
        rw [hma, hmm] at hm; simp only at hm; injection hm with hm; subst hm
        simp only [SItems.toks, List.cons_append, List.append_assoc, List.singleton_append] at hs
        obtain ⟨hel, hene⟩ := eol_not_literal e hge
        obtain ⟨s1, hp1, hs1, hw1, hk1⟩ := parseToken_miss env hcap TT.delimiter (some ":") s hw e _ hs
          (delim_mismatch e ":" (eol_not_delim e ":" hge)) hene
        obtain ⟨tok2, s2, hr2, hs2, hw2, hk2, _⟩ := parseAssociation_refuse1 env hcap g s1 hw1 e _ (by rw [hs1, hs]) hel hene
        obtain ⟨s3, hp3, hs3, hw3, hk3⟩ := parseToken_hit env hcap TT.eol none s2 hw2 e _ (by rw [hs2, hs1, hs])
          (eol_matches e hge) (by decide) (by decide)
        have hlen3 : (stream s).length = (stream s3).length + 1 := by rw [hs, hs3]; simp
        obtain ⟨tok4, s4, hr4, hs4, hw4, ht4⟩ := cAssoc hcap a (g + 1) s3 (more.toks ++ last :: rest) p hga hma hs3 hw3
          (by unfold Fuel at hf ⊢; omega)
        have hlen4 : (stream s4).length ≤ (stream s3).length := by rw [hs4, hs3]; simp
        obtain ⟨r0, r'', hr0, _, hr0e, hr0l, _⟩ := closes_not_comma hc
        obtain ⟨tok5, s5, hr5, hs5, hw5, ht5⟩ := cMAL hcap more (g + 1) s4 rest last [] p.1 p.2 tok4 ps hgm hmm hs4 hgl r0 r'' hr0 hr0l hr0e hw4
          (by unfold Fuel at hf ⊢; omega)
        refine ⟨tok5, s5, ?_, hs5, hw5, ht5⟩
        simp only [parseItems, parseAssociations, hp1, parseInlineAssociations, hr2, parseMultilineAssociations, hp3, hr4, hr5]
        simp [Val.catalogOf, List.foldl_cons]

theorem cIVL (hcap : 3 < env.stackSize) : ∀ (more : SVals) (f : Nat) (s : PS) (rest : List Token) (acc : List Val) (x : Val) (xs : List Val),
    more.Good (fun t => isDelim t ",") → more.mean env = some xs → stream s = more.toks ++ rest →
    ∀ (r0 : Token) (r' : List Token), rest = r0 :: r' → isDelim r0 "," = false → r0.tt ≠ .error → WF env s → Fuel 0 f s →
    Done env (inlineValuesLoop env f acc x s) (acc ++ x :: xs) rest
  | .nil, f, s, rest, acc, x, xs, _, hm, hs, r0, r', hr, hnc, hne, hw, hf => by
    have hf8 := stream_nonempty_fuel env hw hf
    obtain ⟨g, rfl⟩ : ∃ g, f = g + 1 := ⟨f - 1, by omega⟩
    simp only [SVals.mean] at hm; injection hm with hm; subst hm
    simp only [SVals.toks, List.nil_append] at hs
    obtain ⟨s1, hp1, hs1, hw1, _⟩ := parseToken_miss env hcap TT.delimiter (some ",") s hw r0 r' (by rw [hs, hr])
      (delim_mismatch r0 "," hnc) hne
    exact ⟨some r0, s1, by simp only [inlineValuesLoop, hp1], by rw [hs1, hs], hw1, tokOk_of_mem env s hw r0 (by rw [hs, hr]; simp)⟩
  | .cons sep v more, f, s, rest, acc, x, xs, hg, hm, hs, r0, r', hr, hnc, hne, hw, hf => by
    have hf8 := stream_nonempty_fuel env hw hf
    obtain ⟨g, rfl⟩ : ∃ g, f = g + 1 := ⟨f - 1, by omega⟩
    simp only [SVals.Good] at hg
    obtain ⟨hgs, hgv, hgm⟩ := hg
    simp only [SVals.mean] at hm
    cases hmv : v.mean env with
    | none => rw [hmv] at hm; simp at hm
    | some y =>
      cases hmm : more.mean env with
      | none => rw [hmv, hmm] at hm; simp at hm
      | some ys =>
        rw [hmv, hmm] at hm; simp only at hm; injection hm with hm; subst hm
        simp only [SVals.toks, List.cons_append, List.append_assoc] at hs
        obtain ⟨s1, hp1, hs1, hw1, _⟩ := parseToken_hit env hcap TT.delimiter (some ",") s hw sep _ hs
          (delim_matches sep "," hgs) (by decide) (by decide)
        have hlen1 : (stream s).length = (stream s1).length + 1 := by rw [hs, hs1]; simp
        obtain ⟨tok2, s2, hr2, hs2, hw2, ht2⟩ := cValue hcap v g s1 (more.toks ++ rest) y hgv hmv hs1 hw1
          (by unfold Fuel at hf ⊢; omega)
        have hlen2 : (stream s2).length ≤ (stream s1).length := by rw [hs2, hs1]; simp
        obtain ⟨tok3, s3, hr3, hs3, hw3, ht3⟩ := cIVL hcap more g s2 rest (acc ++ [x]) y ys hgm hmm hs2 r0 r' hr hnc hne hw2
          (by unfold Fuel at hf ⊢; omega)
        refine ⟨tok3, s3, ?_, hs3, hw3, ht3⟩
        simp only [inlineValuesLoop, hp1, hr2, hr3, List.append_assoc, List.singleton_append]

theorem cMVL (hcap : 3 < env.stackSize) : ∀ (more : SVals) (f : Nat) (s : PS) (rest : List Token) (last : Token) (acc : List Val) (x : Val) (xs : List Val),
    more.Good isEol → more.mean env = some xs → stream s = more.toks ++ last :: rest → isEol last = true →
    ∀ (r0 : Token) (r' : List Token), rest = r0 :: r' → isLiteralKind r0.tt = false → isDelim r0 "[" = false → r0.tt ≠ .error →
    WF env s → Fuel 0 f s → Done env (multiValuesLoop env f acc x s) (acc ++ x :: xs) rest
  | .nil, f, s, rest, last, acc, x, xs, _, hm, hs, hl, r0, r', hr, hnl, hnb, hne, hw, hf => by
    have hf8 := stream_nonempty_fuel env hw hf
    obtain ⟨g, rfl⟩ : ∃ g, f = g + 4 := ⟨f - 4, by omega⟩
    simp only [SVals.mean] at hm; injection hm with hm; subst hm
    simp only [SVals.toks, List.nil_append] at hs
    obtain ⟨s1, hp1, hs1, hw1, _⟩ := parseToken_hit env hcap TT.eol none s hw last rest hs (eol_matches last hl) (by decide) (by decide)
    obtain ⟨tok2, s2, hr2, hs2, hw2, _, ht2⟩ := parseValue_refuse env hcap g s1 hw1 r0 r' (by rw [hs1, hr]) hnl hnb hne
    exact ⟨tok2, s2, by simp only [multiValuesLoop, hp1, hr2], by rw [hs2, hs1], hw2, ht2⟩
  | .cons sep v more, f, s, rest, last, acc, x, xs, hg, hm, hs, hl, r0, r', hr, hnl, hnb, hne, hw, hf => by
    have hf8 := stream_nonempty_fuel env hw hf
    obtain ⟨g, rfl⟩ : ∃ g, f = g + 1 := ⟨f - 1, by omega⟩
    simp only [SVals.Good] at hg
    obtain ⟨hgs, hgv, hgm⟩ := hg
    simp only [SVals.mean] at hm
    cases hmv : v.mean env with
    | none => rw [hmv] at hm; simp at hm
    | some y =>
      cases hmm : more.mean env with
      | none => rw [hmv, hmm] at hm; simp at hm
      | some ys =>
        rw [hmv, hmm] at hm; simp only at hm; injection hm with hm; subst hm
        simp only [SVals.toks, List.cons_append, List.append_assoc] at hs
        obtain ⟨s1, hp1, hs1, hw1, _⟩ := parseToken_hit env hcap TT.eol none s hw sep _ hs (eol_matches sep hgs) (by decide) (by decide)
        have hlen1 : (stream s).length = (stream s1).length + 1 := by rw [hs, hs1]; simp
        obtain ⟨tok2, s2, hr2, hs2, hw2, ht2⟩ := cValue hcap v g s1 (more.toks ++ last :: rest) y hgv hmv hs1 hw1
          (by unfold Fuel at hf ⊢; omega)
        have hlen2 : (stream s2).length ≤ (stream s1).length := by rw [hs2, hs1]; simp
        obtain ⟨tok3, s3, hr3, hs3, hw3, ht3⟩ := cMVL hcap more g s2 rest last (acc ++ [x]) y ys hgm hmm hs2 hl r0 r' hr hnl hnb hne hw2
          (by unfold Fuel at hf ⊢; omega)
        refine ⟨tok3, s3, ?_, hs3, hw3, ht3⟩
        simp only [multiValuesLoop, hp1, hr2, hr3, List.append_assoc, List.singleton_append]

theorem cAssoc (hcap : 3 < env.stackSize) : ∀ (a : SAssoc) (f : Nat) (s : PS) (rest : List Token) (p : Val × Val),
    a.Good → a.mean env = some p → stream s = a.toks ++ rest → WF env s → Fuel 0 f s →
    Done env (parseAssociation env f s) (.assoc p.1 p.2) rest
  | .mk key colon v, f, s, rest, p, hg, hm, hs, hw, hf => by
    have hf8 := stream_nonempty_fuel env hw hf
    obtain ⟨g, rfl⟩ : ∃ g, f = g + 1 := ⟨f - 1, by omega⟩
    simp only [SAssoc.Good] at hg
    obtain ⟨hgk, hgc, hgv⟩ := hg
    simp only [SAssoc.mean] at hm
    cases hck : env.conv key with
    | none => rw [hck] at hm; simp at hm
    | some k =>
      cases hmv : v.mean env with
      | none => rw [hck, hmv] at hm; simp at hm
      | some x =>
        rw [hck, hmv] at hm; simp only at hm; injection hm with hm; subst hm
        simp only [SAssoc.toks, List.cons_append] at hs
        obtain ⟨s1, hi, hs1, hw1, _⟩ := parseIntrinsic_hit env hcap s hw key _ k hs hgk hck
        obtain ⟨s2, hp2, hs2, hw2, _⟩ := parseToken_hit env hcap TT.delimiter (some ":") s1 hw1 colon _ hs1
          (delim_matches colon ":" hgc) (by decide) (by decide)
        have hlen : (stream s).length = (stream s2).length + 2 := by rw [hs, hs2]; simp
        obtain ⟨tok3, s3, hr3, hs3, hw3, ht3⟩ := cValue hcap v g s2 rest x hgv hmv hs2 hw2 (by unfold Fuel at hf ⊢; omega)
        exact ⟨tok3, s3, by simp only [parseAssociation, hi, hp2, hr3], hs3, hw3, ht3⟩

theorem cIAL (hcap : 3 < env.stackSize) : ∀ (more : SAssocs) (f : Nat) (s : PS) (rest : List Token) (acc : List (Val × Val)) (k x : Val)
    (ps : List (Val × Val)),
    more.Good (fun t => isDelim t ",") → more.mean env = some ps → stream s = more.toks ++ rest →
    ∀ (r0 : Token) (r' : List Token), rest = r0 :: r' → isDelim r0 "," = false → r0.tt ≠ .error → WF env s → Fuel 0 f s →
    Done env (inlineAssocLoop env f acc (.assoc k x) s)
      ((ps.foldl (fun a p => Val.catalogSet a p.1 p.2) (Val.catalogSet acc k x)).map (fun p => Val.assoc p.1 p.2)) rest
  | .nil, f, s, rest, acc, k, x, ps, _, hm, hs, r0, r', hr, hnc, hne, hw, hf => by
    have hf8 := stream_nonempty_fuel env hw hf
    obtain ⟨g, rfl⟩ : ∃ g, f = g + 1 := ⟨f - 1, by omega⟩
    simp only [SAssocs.mean] at hm; injection hm with hm; subst hm
    simp only [SAssocs.toks, List.nil_append] at hs
    obtain ⟨s1, hp1, hs1, hw1, _⟩ := parseToken_miss env hcap TT.delimiter (some ",") s hw r0 r' (by rw [hs, hr])
      (delim_mismatch r0 "," hnc) hne
    exact ⟨some r0, s1, by simp only [inlineAssocLoop, hp1, List.foldl_nil], by rw [hs1, hs], hw1,
      tokOk_of_mem env s hw r0 (by rw [hs, hr]; simp)⟩
  | .cons sep a more, f, s, rest, acc, k, x, ps, hg, hm, hs, r0, r', hr, hnc, hne, hw, hf => by
    have hf8 := stream_nonempty_fuel env hw hf
    obtain ⟨g, rfl⟩ : ∃ g, f = g + 1 := ⟨f - 1, by omega⟩
    simp only [SAssocs.Good] at hg
    obtain ⟨hgs, hga, hgm⟩ := hg
    simp only [SAssocs.mean] at hm
    cases hma : a.mean env with
    | none => rw [hma] at hm; simp at hm
    | some q =>
      cases hmm : more.mean env with
      | none => rw [hma, hmm] at hm; simp at hm
      | some qs =>
        rw [hma, hmm] at hm; simp only at hm; injection hm with hm; subst hm
        simp only [SAssocs.toks, List.cons_append, List.append_assoc] at hs
        obtain ⟨s1, hp1, hs1, hw1, _⟩ := parseToken_hit env hcap TT.delimiter (some ",") s hw sep _ hs
          (delim_matches sep "," hgs) (by decide) (by decide)
        have hlen1 : (stream s).length = (stream s1).length + 1 := by rw [hs, hs1]; simp
        obtain ⟨tok2, s2, hr2, hs2, hw2, ht2⟩ := cAssoc hcap a g s1 (more.toks ++ rest) q hga hma hs1 hw1
          (by unfold Fuel at hf ⊢; omega)
        have hlen2 : (stream s2).length ≤ (stream s1).length := by rw [hs2, hs1]; simp
        obtain ⟨tok3, s3, hr3, hs3, hw3, ht3⟩ := cIAL hcap more g s2 rest (Val.catalogSet acc k x) q.1 q.2 qs hgm hmm hs2 r0 r' hr hnc hne hw2
          (by unfold Fuel at hf ⊢; omega)
        refine ⟨tok3, s3, ?_, hs3, hw3, ht3⟩
        simp only [inlineAssocLoop, hp1, hr2, hr3, List.foldl_cons]

theorem cMAL (hcap : 3 < env.stackSize) : ∀ (more : SAssocs) (f : Nat) (s : PS) (rest : List Token) (last : Token) (acc : List (Val × Val))
    (k x : Val) (tok0 : Option Token) (ps : List (Val × Val)),
    more.Good isEol → more.mean env = some ps → stream s = more.toks ++ last :: rest → isEol last = true →
    ∀ (r0 : Token) (r' : List Token), rest = r0 :: r' → isLiteralKind r0.tt = false → r0.tt ≠ .error → WF env s → Fuel 0 f s →
    Done env (multiAssocLoop env f acc (.assoc k x) tok0 s)
      ((ps.foldl (fun a p => Val.catalogSet a p.1 p.2) (Val.catalogSet acc k x)).map (fun p => Val.assoc p.1 p.2)) rest
  | .nil, f, s, rest, last, acc, k, x, tok0, ps, _, hm, hs, hl, r0, r', hr, hnl, hne, hw, hf => by
    have hf8 := stream_nonempty_fuel env hw hf
    obtain ⟨g, rfl⟩ : ∃ g, f = g + 2 := ⟨f - 2, by omega⟩
    simp only [SAssocs.mean] at hm; injection hm with hm; subst hm
    simp only [SAssocs.toks, List.nil_append] at hs
    obtain ⟨s1, hp1, hs1, hw1, _⟩ := parseToken_hit env hcap TT.eol none s hw last rest hs (eol_matches last hl) (by decide) (by decide)
    obtain ⟨tok2, s2, hr2, hs2, hw2, _, ht2⟩ := parseAssociation_refuse1 env hcap g s1 hw1 r0 r' (by rw [hs1, hr]) hnl hne
    exact ⟨tok2, s2, by simp only [multiAssocLoop, hp1, hr2, List.foldl_nil], by rw [hs2, hs1], hw2, ht2⟩
  | .cons sep a more, f, s, rest, last, acc, k, x, tok0, ps, hg, hm, hs, hl, r0, r', hr, hnl, hne, hw, hf => by
    have hf8 := stream_nonempty_fuel env hw hf
    obtain ⟨g, rfl⟩ : ∃ g, f = g + 1 := ⟨f - 1, by omega⟩
    simp only [SAssocs.Good] at hg
    obtain ⟨hgs, hga, hgm⟩ := hg
    simp only [SAssocs.mean] at hm
    cases hma : a.mean env with
    | none => rw [hma] at hm; simp at hm
    | some q =>
      cases hmm : more.mean env with
      | none => rw [hma, hmm] at hm; simp at hm
      | some qs =>
        rw [hma, hmm] at hm; simp only at hm; injection hm with hm; subst hm
        simp only [SAssocs.toks, List.cons_append, List.append_assoc] at hs
        obtain ⟨s1, hp1, hs1, hw1, _⟩ := parseToken_hit env hcap TT.eol none s hw sep _ hs (eol_matches sep hgs) (by decide) (by decide)
        have hlen1 : (stream s).length = (stream s1).length + 1 := by rw [hs, hs1]; simp
        obtain ⟨tok2, s2, hr2, hs2, hw2, ht2⟩ := cAssoc hcap a g s1 (more.toks ++ last :: rest) q hga hma hs1 hw1
          (by unfold Fuel at hf ⊢; omega)
        have hlen2 : (stream s2).length ≤ (stream s1).length := by rw [hs2, hs1]; simp
        obtain ⟨tok3, s3, hr3, hs3, hw3, ht3⟩ := cMAL hcap more g s2 rest last (Val.catalogSet acc k x) q.1 q.2 tok2 qs hgm hmm hs2 hl r0 r' hr hnl hne hw2
          (by unfold Fuel at hf ⊢; omega)
        refine ⟨tok3, s3, ?_, hs3, hw3, ht3⟩
        simp only [multiAssocLoop, hp1, hr2, hr3, List.foldl_cons]

end

end Cdcn
end CM
