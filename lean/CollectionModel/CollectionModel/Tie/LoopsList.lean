import CollectionModel.Generated.LoopsList
import CollectionModel.Model.Seq
import CollectionModel.Lemmas.GoSemLemmas
/-
  T3L obligations for C01: the rebuild loops of `list_` (InsertValue, InsertValues, AppendValue,
  AppendValues, RemoveValue, RemoveValues, RemoveAll), TRANSLATED from the current text of
  list.go (Generated/LoopsList.lean: a fresh array of zero values filled through `SetValue`,
  an iterator that hands out the zero value once exhausted, `int`/`uint` arithmetic with
  wrap-around), compute what the list-level model `Model/Seq.lean` computes, for every list
  shorter than 2^62.  (`array_.SetValue` / `GetValue` and `toNormalized` are the Seq model's
  in both; their own ties are `toZeroBased_tie` / `toNormalized_tie`.)
-/
namespace CM
namespace Tie
open CM.GoSem CM.Seq

set_option linter.unusedSectionVars false
set_option linter.unusedVariables false

variable {α : Type} [Inhabited α]

theorem w64_succN (n : Nat) (h : IsInt64 ((n : Int) + 1)) : w64 ((n : Int) + 1) = ((n + 1 : Nat) : Int) := by
  rw [w64_id h]; omega

theorem makeArray_ok (n : Nat) (h : IsInt64 (n : Int)) : makeArray (α := α) (n : Int) = .ok (List.replicate n default) := by
  unfold makeArray
  have : (0 : Int) ≤ (n : Int) ∧ (n : Int) < 9223372036854775808 := by unfold IsInt64 at h; omega
  simp [this]

/-- writing position `k+1` of an array whose first `k` positions are filled -/
theorem setValue_fill (pre : List α) (n k : Nat) (x : α) (hk : pre.length = k) (hkn : k < n) :
    Seq.setValue (pre ++ List.replicate (n - k) default) ((k + 1 : Nat) : Int) x
      = .ok ((pre ++ [x]) ++ List.replicate (n - (k + 1)) default) := by
  unfold Seq.setValue Seq.toZeroBased
  have hl : (pre ++ List.replicate (n - k) (default : α)).length = n := by simp [hk]; omega
  rw [hl]
  have h0 : ¬ n = 0 := by omega
  have h1 : ¬ ((k + 1 : Nat) : Int) = 0 := by omega
  have h2 : ¬ (((k + 1 : Nat) : Int) < -(n : Int) ∨ ((k + 1 : Nat) : Int) > (n : Int)) := by omega
  have h3 : ¬ ((k + 1 : Nat) : Int) < 0 := by omega
  simp only [h0, h1, h2, h3, if_false]
  have e : (((k + 1 : Nat) : Int) - 1).toNat = k := by omega
  rw [e]
  congr 1
  have : n - k = (n - (k + 1)) + 1 := by omega
  rw [this, List.replicate_succ, List.set_append_right _ _ (by omega), hk, Nat.sub_self]
  simp

/-! ### InsertValue -/

theorem listInsertValue_loop_tie (slot : Nat) (value : α) (vals : List α) (n : Nat) (hint : IsInt64 ((n : Int) + 1))
    (hslot : slot ≤ n) :
    ∀ (fuel k : Nat) (pre it : List α), pre.length = k → k ≤ n → n - k < fuel →
      Generated.listInsertValue_loop1 (slot : Int) value fuel (n : Int) (pre ++ List.replicate (n - k) default) it (k : Int) vals
        = some (.ok (pre ++ insertLoop slot value (n - k) k it)) := by
  intro fuel
  induction fuel with
  | zero => intro k pre it _ _ hf; omega
  | succ f ih =>
    intro k pre it hk hkn hf
    unfold Generated.listInsertValue_loop1
    rw [w64_id (x := (n : Int)) (by unfold IsInt64 at *; omega), w64_id (x := (slot : Int)) (by unfold IsInt64 at *; omega)]
    by_cases hlt : k < n
    · have c : ((k : Int) < (n : Int)) := by omega
      simp only [c, decide_true, if_true]
      rw [w64_succN k (by unfold IsInt64 at *; omega)]
      obtain ⟨m, hm⟩ : ∃ m, n - k = m + 1 := ⟨n - k - 1, by omega⟩
      have hm' : n - (k + 1) = m := by omega
      by_cases hs : k = slot
      · have c2 : ((k : Int) == (slot : Int)) = true := by simp [hs]
        simp only [c2, if_true]
        rw [setValue_fill pre n k value hk hlt]
        simp only [bindE_ok]
        rw [ih (k + 1) (pre ++ [value]) it (by simp [hk]) (by omega) (by omega), hm, hm']
        simp [insertLoop, hs]
      · have c2 : ((k : Int) == (slot : Int)) = false := by simp; omega
        simp only [c2, Bool.false_eq_true, if_false]
        rw [setValue_fill pre n k (itNext it).1 hk hlt]
        simp only [bindE_ok]
        rw [ih (k + 1) (pre ++ [(itNext it).1]) (itNext it).2 (by simp [hk]) (by omega) (by omega), hm, hm']
        simp [insertLoop, hs]
    · have c : ¬ ((k : Int) < (n : Int)) := by omega
      have e : n - k = 0 := by omega
      simp [c, e, insertLoop]

/-- `list_.InsertValue` as written in list.go = `Seq.insertValue` -/
theorem listInsertValue_tie (l : List α) (slot : Nat) (v : α) (fuel : Nat)
    (hint : IsInt64 ((l.length : Int) + 2)) (hs : IsUint64 (slot : Int)) (hfuel : l.length + 1 < fuel) :
    Generated.listInsertValue (slot : Int) v l fuel = some (Seq.insertValue l slot v) := by
  unfold Generated.listInsertValue Seq.insertValue
  rw [u64_id (x := (l.length : Int)) (by unfold IsUint64; unfold IsInt64 at hint; omega)]
  by_cases h : slot > l.length
  · have : ((slot : Int) > (l.length : Int)) := by omega
    simp [h, this]
  · have : ¬ ((slot : Int) > (l.length : Int)) := by omega
    simp only [this, h, decide_false, Bool.false_eq_true, if_false]
    rw [w64_succN l.length (by unfold IsInt64 at *; omega), u64_id (by unfold IsUint64; unfold IsInt64 at hint; omega),
      makeArray_ok _ (by unfold IsInt64 at *; omega)]
    simp only [bindE_ok]
    have := listInsertValue_loop_tie slot v l (l.length + 1) (by unfold IsInt64 at *; omega) (by omega) fuel 0 [] l rfl (by omega) (by omega)
    simpa using this

/-! ### AppendValue, AppendValues -/

/-- a copy loop `for iterator.HasNext() { index++; array.SetValue(index, iterator.GetNext()) }` -/
theorem isEmpty_false_cons (it : List α) (h : it ≠ []) : it.isEmpty = false := by
  cases it <;> simp_all

theorem listAppendValue_loop_tie (value : α) (vals : List α) (n : Nat) (hint : IsInt64 ((n : Int) + 1)) :
    ∀ (fuel k : Nat) (pre it : List α), pre.length = k → k + it.length + 1 = n → it.length < fuel →
      Generated.listAppendValue_loop1 value fuel (n : Int) (pre ++ List.replicate (n - k) default) (k : Int) it vals
        = some (.ok (pre ++ it ++ [value])) := by
  intro fuel
  induction fuel with
  | zero => intro k pre it _ _ hf; omega
  | succ f ih =>
    intro k pre it hk hn hf
    unfold Generated.listAppendValue_loop1
    rw [w64_succN k (by unfold IsInt64 at *; omega)]
    cases it with
    | nil =>
      simp only [List.isEmpty_nil, Bool.not_true, Bool.false_eq_true, if_false]
      simp only [List.length_nil] at hn
      rw [setValue_fill pre n k value hk (by omega)]
      have : n - (k + 1) = 0 := by omega
      simp [this]
    | cons x xs =>
      simp only [List.isEmpty_cons, Bool.not_false, if_true, itNext]
      simp only [List.length_cons] at hn hf
      rw [setValue_fill pre n k x hk (by omega)]
      simp only [bindE_ok]
      rw [ih (k + 1) (pre ++ [x]) xs (by simp [hk]) (by omega) (by omega)]
      simp

/-- `list_.AppendValue` as written in list.go = `Seq.appendValue` -/
theorem listAppendValue_tie (l : List α) (v : α) (fuel : Nat) (hint : IsInt64 ((l.length : Int) + 2)) (hfuel : l.length < fuel) :
    Generated.listAppendValue v l fuel = some (.ok (Seq.appendValue l v)) := by
  unfold Generated.listAppendValue Seq.appendValue
  rw [w64_succN l.length (by unfold IsInt64 at *; omega), u64_id (by unfold IsUint64; unfold IsInt64 at hint; omega)]
  have hm := makeArray_ok (α := α) (l.length + 1) (by unfold IsInt64 at *; omega)
  simp only [hm, bindE_ok]
  have := listAppendValue_loop_tie v l (l.length + 1) (by unfold IsInt64 at *; omega) fuel 0 [] l rfl (by omega) hfuel
  simpa using this

theorem listAppendValues_loop2_tie (values vals : List α) (n : Nat) (hint : IsInt64 ((n : Int) + 1)) :
    ∀ (fuel k : Nat) (pre it : List α), pre.length = k → k + it.length = n → it.length < fuel →
      Generated.listAppendValues_loop2 values fuel (n : Int) (pre ++ List.replicate (n - k) default) (k : Int) it vals
        = some (.ok (pre ++ it)) := by
  intro fuel
  induction fuel with
  | zero => intro k pre it _ _ hf; omega
  | succ f ih =>
    intro k pre it hk hn hf
    unfold Generated.listAppendValues_loop2
    rw [w64_succN k (by unfold IsInt64 at *; omega)]
    cases it with
    | nil =>
      simp only [List.length_nil] at hn
      have : n - k = 0 := by omega
      simp [this]
    | cons x xs =>
      simp only [List.isEmpty_cons, Bool.not_false, if_true, itNext]
      simp only [List.length_cons] at hn hf
      rw [setValue_fill pre n k x hk (by omega)]
      simp only [bindE_ok]
      rw [ih (k + 1) (pre ++ [x]) xs (by simp [hk]) (by omega) (by omega)]
      simp

theorem listAppendValues_loop1_tie (values vals : List α) (n : Nat) (hint : IsInt64 ((n : Int) + 1)) :
    ∀ (fuel k : Nat) (pre it : List α), pre.length = k → k + it.length + values.length = n → it.length + values.length + 1 < fuel →
      Generated.listAppendValues_loop1 values fuel (n : Int) (pre ++ List.replicate (n - k) default) (k : Int) it vals
        = some (.ok (pre ++ it ++ values)) := by
  intro fuel
  induction fuel with
  | zero => intro k pre it _ _ hf; omega
  | succ f ih =>
    intro k pre it hk hn hf
    unfold Generated.listAppendValues_loop1
    rw [w64_succN k (by unfold IsInt64 at *; omega)]
    cases it with
    | nil =>
      simp only [List.isEmpty_nil, Bool.not_true, Bool.false_eq_true, if_false]
      simp only [List.length_nil] at hn hf
      rw [listAppendValues_loop2_tie values vals n hint f k pre values hk (by omega) (by omega)]
      simp
    | cons x xs =>
      simp only [List.isEmpty_cons, Bool.not_false, if_true, itNext]
      simp only [List.length_cons] at hn hf
      rw [setValue_fill pre n k x hk (by omega)]
      simp only [bindE_ok]
      rw [ih (k + 1) (pre ++ [x]) xs (by simp [hk]) (by omega) (by omega)]
      simp

/-- `list_.AppendValues` as written in list.go = `Seq.appendValues` -/
theorem listAppendValues_tie (l vs : List α) (fuel : Nat) (hint : IsInt64 ((l.length : Int) + (vs.length : Int) + 2))
    (hfuel : l.length + vs.length + 1 < fuel) :
    Generated.listAppendValues vs l fuel = some (.ok (Seq.appendValues l vs)) := by
  unfold Generated.listAppendValues Seq.appendValues
  have e : w64 ((l.length : Int) + (vs.length : Int)) = ((l.length + vs.length : Nat) : Int) := by
    rw [w64_id (by unfold IsInt64 at *; omega)]; omega
  rw [e, u64_id (by unfold IsUint64; unfold IsInt64 at hint; omega)]
  have hm := makeArray_ok (α := α) (l.length + vs.length) (by unfold IsInt64 at *; omega)
  simp only [hm, bindE_ok]
  have := listAppendValues_loop1_tie vs l (l.length + vs.length) (by unfold IsInt64 at *; omega) fuel 0 [] l rfl (by omega) (by omega)
  simpa using this

/-! ### RemoveValue -/

theorem listRemoveValue_loop_tie (removed : α) (vals : List α) (n : Nat) (hint : IsInt64 ((n : Int) + 3)) :
    ∀ (fuel k : Nat) (pre it : List α) (c : Int), pre.length = k → -((k : Int) + 1) ≤ c →
      ((1 ≤ c ∧ c ≤ (it.length : Int) ∧ k + it.length = n + 1) ∨ (c ≤ 0 ∧ k + it.length = n)) → it.length < fuel →
      Generated.listRemoveValue_loop1 fuel ((k + 1 : Nat) : Int) removed (n : Int) (pre ++ List.replicate (n - k) default) c it vals
        = some (.ok (removed, pre ++ removeLoop c it)) := by
  intro fuel
  induction fuel with
  | zero => intro k pre it c _ _ _ hf; omega
  | succ f ih =>
    intro k pre it c hk hc hinv hf
    unfold Generated.listRemoveValue_loop1
    cases it with
    | nil =>
      have : n - k = 0 := by simp at hinv; omega
      simp [removeLoop, this]
    | cons x xs =>
      simp only [List.isEmpty_cons, Bool.not_false, if_true, itNext]
      simp only [List.length_cons] at hinv hf
      rw [w64_id (x := c - 1) (by unfold IsInt64 at *; omega)]
      by_cases h0 : c - 1 = 0
      · have c1 : ((c - 1) == (0 : Int)) = true := by simp [h0]
        simp only [c1, if_true, removeLoop, h0]
        have := ih k pre xs (c - 1) hk (by omega) (Or.inr ⟨by omega, by omega⟩) (by omega)
        rw [h0] at this
        exact this
      · have c1 : ((c - 1) == (0 : Int)) = false := by simp [h0]
        simp only [c1, Bool.false_eq_true, if_false, removeLoop, h0]
        have hkn : k < n := by
          rcases hinv with ⟨h1, h2, h3⟩ | ⟨h1, h3⟩
          · push_cast at h2; omega
          · omega
        rw [setValue_fill pre n k x hk hkn]
        simp only [bindE_ok]
        rw [w64_succN (k + 1) (by unfold IsInt64 at *; omega)]
        rw [ih (k + 1) (pre ++ [x]) xs (c - 1) (by simp [hk]) (by push_cast; omega)
          (by rcases hinv with ⟨h1, h2, h3⟩ | ⟨h1, h3⟩
              · left; push_cast at h2; exact ⟨by omega, by omega, by omega⟩
              · right; exact ⟨by omega, by omega⟩) (by omega)]
        simp

/-- `list_.RemoveValue` as written in list.go = `Seq.removeValue` -/
theorem listRemoveValue_tie (l : List α) (index : Int) (fuel : Nat) (hint : IsInt64 ((l.length : Int) + 4)) (hfuel : l.length < fuel) :
    Generated.listRemoveValue index l fuel = some (Seq.removeValue l index) := by
  unfold Generated.listRemoveValue Seq.removeValue
  cases hg : Seq.getValue l index with
  | error p => simp
  | ok removed =>
    simp only [bindE_ok]
    -- the list is not empty and the index is in range
    have hpos : 0 < l.length := by
      unfold Seq.getValue Seq.toZeroBased at hg
      by_cases h : l.length = 0
      · simp [h] at hg
      · omega
    have e : w64 ((l.length : Int) - 1) = ((l.length - 1 : Nat) : Int) := by
      rw [w64_id (by unfold IsInt64 at *; omega)]; omega
    rw [e, u64_id (by unfold IsUint64; unfold IsInt64 at hint; omega)]
    have hm := makeArray_ok (α := α) (l.length - 1) (by unfold IsInt64 at *; omega)
    simp only [hm, bindE_ok]
    cases hn : Seq.toNormalized l.length index with
    | error p => simp
    | ok counter =>
      simp only [bindE_ok]
      have hc : 1 ≤ counter ∧ counter ≤ (l.length : Int) := by
        unfold Seq.toNormalized at hn
        split at hn
        · cases hn
        · split at hn
          · cases hn
          · split at hn
            · cases hn
            · split at hn <;> (injection hn with hn; omega)
      have := listRemoveValue_loop_tie removed l (l.length - 1) (by unfold IsInt64 at *; omega) fuel 0 [] l counter rfl (by omega)
        (Or.inl ⟨hc.1, hc.2, by omega⟩) hfuel
      simpa using this

/-! ### RemoveValues -/

theorem listRemoveValues_loop_tie (vals : List α) (len F La : Nat) (hF : 1 ≤ F) (hFL : F ≤ La + 1) (hLa : La ≤ len)
    (hint : IsInt64 ((len : Int) + 3)) :
    ∀ (fuel c : Nat) (preA preR it : List α),
      preR.length = min (c - (F - 1)) (La + 1 - F) → preA.length + preR.length = c → c + it.length = len → it.length < fuel →
      Generated.listRemoveValues_loop1 fuel (F : Int) (La : Int) ((La + 1 - F : Nat) : Int) ((len - (La + 1 - F) : Nat) : Int) ()
          (preR ++ List.replicate ((La + 1 - F) - preR.length) default)
          (preA ++ List.replicate ((len - (La + 1 - F)) - preA.length) default)
          (c : Int) (preA.length : Int) (preR.length : Int) it vals
        = some (.ok (preR ++ (splitLoop F La c it).2, preA ++ (splitLoop F La c it).1)) := by
  intro fuel
  induction fuel with
  | zero => intro c preA preR it _ _ _ hf; omega
  | succ f ih =>
    intro c preA preR it hR hA hc hf
    unfold Generated.listRemoveValues_loop1
    cases it with
    | nil =>
      have e1 : (La + 1 - F) - preR.length = 0 := by simp at hc; omega
      have e2 : (len - (La + 1 - F)) - preA.length = 0 := by simp at hc; omega
      simp [splitLoop, e1, e2]
    | cons x xs =>
      simp only [List.isEmpty_cons, Bool.not_false, if_true, itNext]
      simp only [List.length_cons] at hc hf
      rw [w64_succN c (by unfold IsInt64 at *; omega)]
      simp only [splitLoop]
      by_cases hk : c + 1 < F ∨ c + 1 > La
      · have c1 : (decide (((c + 1 : Nat) : Int) < (F : Int)) || decide (((c + 1 : Nat) : Int) > (La : Int))) = true := by
          simp only [Bool.or_eq_true, decide_eq_true_eq]; omega
        simp only [c1, if_true, hk]
        rw [w64_succN preA.length (by unfold IsInt64 at *; omega)]
        rw [setValue_fill preA (len - (La + 1 - F)) preA.length x rfl (by omega)]
        simp only [bindE_ok]
        have := ih (c + 1) (preA ++ [x]) preR xs (by omega) (by simp; omega) (by omega) (by omega)
        simp only [List.length_append, List.length_cons, List.length_nil, Nat.zero_add] at this
        rw [this]
        simp
      · have c1 : (decide (((c + 1 : Nat) : Int) < (F : Int)) || decide (((c + 1 : Nat) : Int) > (La : Int))) = false := by
          simp only [Bool.or_eq_false_iff, decide_eq_false_iff_not]; omega
        simp only [c1, Bool.false_eq_true, if_false, hk]
        rw [w64_succN preR.length (by unfold IsInt64 at *; omega)]
        rw [setValue_fill preR (La + 1 - F) preR.length x rfl (by omega)]
        simp only [bindE_ok]
        have := ih (c + 1) preA (preR ++ [x]) xs (by simp; omega) (by simp; omega) (by omega) (by omega)
        simp only [List.length_append, List.length_cons, List.length_nil, Nat.zero_add] at this
        rw [this]
        simp

theorem toNormalized_range (n : Nat) (i r : Int) (h : Seq.toNormalized n i = .ok r) : 1 ≤ r ∧ r ≤ (n : Int) := by
  unfold Seq.toNormalized at h
  split at h
  · cases h
  · split at h
    · cases h
    · split at h
      · cases h
      · split at h <;> (injection h with h; omega)

/-- `list_.RemoveValues` as written in list.go = `Seq.removeValues` (a range whose end lies before its start makes
    `uint(last-first+1)` huge and `make` fail with a Go runtime error, in both) -/
theorem listRemoveValues_tie (l : List α) (first last : Int) (fuel : Nat) (hint : IsInt64 ((l.length : Int) + 4)) (hfuel : l.length < fuel) :
    Generated.listRemoveValues first last l fuel = some (Seq.removeValues l first last) := by
  unfold Generated.listRemoveValues Seq.removeValues
  cases hf : Seq.toNormalized l.length first with
  | error p => simp
  | ok f =>
    simp only [bindE_ok]
    cases hl : Seq.toNormalized l.length last with
    | error p => simp
    | ok la =>
      simp only [bindE_ok]
      obtain ⟨f1, f2⟩ := toNormalized_range _ _ _ hf
      obtain ⟨l1, l2⟩ := toNormalized_range _ _ _ hl
      rw [w64_id (x := la - f) (by unfold IsInt64 at *; omega), w64_id (x := la - f + 1) (by unfold IsInt64 at *; omega)]
      by_cases hneg : la - f + 1 < 0
      · -- the removed array cannot be allocated
        have hm : makeArray (α := α) (u64 (la - f + 1)) = .error .rt := by
          unfold makeArray u64
          have : ¬ (0 ≤ (la - f + 1) % 18446744073709551616 ∧ (la - f + 1) % 18446744073709551616 < 9223372036854775808) := by
            unfold IsInt64 at hint; omega
          simp [this]
        simp [hm, hneg]
      · simp only [hneg, if_false]
        obtain ⟨F, rfl⟩ : ∃ k : Nat, f = (k : Int) := ⟨f.toNat, by omega⟩
        obtain ⟨La, rfl⟩ : ∃ k : Nat, la = (k : Int) := ⟨la.toNat, by omega⟩
        have e1 : u64 ((La : Int) - (F : Int) + 1) = ((La + 1 - F : Nat) : Int) := by
          rw [u64_id (by unfold IsUint64; unfold IsInt64 at hint; omega)]; omega
        have e2 : u64 (u64 (l.length : Int) - ((La + 1 - F : Nat) : Int)) = ((l.length - (La + 1 - F) : Nat) : Int) := by
          rw [u64_id (x := (l.length : Int)) (by unfold IsUint64; unfold IsInt64 at hint; omega),
            u64_id (by unfold IsUint64; unfold IsInt64 at hint; omega)]; omega
        rw [e1, e2]
        have hm1 := makeArray_ok (α := α) (La + 1 - F) (by unfold IsInt64 at *; omega)
        have hm2 := makeArray_ok (α := α) (l.length - (La + 1 - F)) (by unfold IsInt64 at *; omega)
        simp only [hm1, hm2, bindE_ok]
        have := listRemoveValues_loop_tie l l.length F La (by omega) (by omega) (by omega) (by unfold IsInt64 at *; omega)
          fuel 0 [] [] l (by simp) rfl (by omega) hfuel
        simpa using this

/-- `list_.RemoveAll` as written in list.go -/
theorem listRemoveAll_tie (l : List α) (fuel : Nat) : Generated.listRemoveAll l fuel = some (.ok ([] : List α)) := by
  unfold Generated.listRemoveAll
  have : makeArray (α := α) (0 : Int) = .ok [] := by simp [makeArray]
  simp [this]

/-! ### InsertValues -/

theorem listInsertValues_loop2_tie (slot : Int) (values vals : List α) (n : Nat) (hint : IsInt64 ((n : Int) + 1))
    (it : List α) (ins : Bool) :
    ∀ (fuel k : Nat) (pre it2 : List α), pre.length = k → k + it2.length ≤ n → it2.length < fuel →
      Generated.listInsertValues_loop2 slot values fuel (n : Int) (pre ++ List.replicate (n - k) default) it (k : Int) ins it2 vals
        = some (.ok ((n : Int), (pre ++ it2) ++ List.replicate (n - (k + it2.length)) default, it, ((k + it2.length : Nat) : Int), ins, [], vals)) := by
  intro fuel
  induction fuel with
  | zero => intro k pre it2 _ _ hf; omega
  | succ f ih =>
    intro k pre it2 hk hn hf
    unfold Generated.listInsertValues_loop2
    cases it2 with
    | nil => simp
    | cons x xs =>
      simp only [List.isEmpty_cons, Bool.not_false, if_true, itNext]
      simp only [List.length_cons] at hn hf
      rw [w64_succN k (by unfold IsInt64 at *; omega), setValue_fill pre n k x hk (by omega)]
      simp only [bindE_ok]
      rw [ih (k + 1) (pre ++ [x]) xs (by simp [hk]) (by omega) (by omega)]
      simp only [List.length_cons, List.append_assoc, List.singleton_append]
      have : k + 1 + xs.length = k + (xs.length + 1) := by omega
      rw [this]

theorem listInsertValues_loop1_tie (slot : Nat) (values vals : List α) (len : Nat) (hslot : slot ≤ len)
    (hint : IsInt64 ((len : Int) + (values.length : Int) + 1)) :
    ∀ (fg fm k : Nat) (pre it : List α) (ins : Bool), pre.length = k → k ≤ len + values.length →
      (len + values.length - k) + (if ins then 0 else 1) < fm →
      (len + values.length - k) + (if ins then 0 else 1) + values.length + 1 < fg →
      Generated.listInsertValues_loop1 (slot : Int) values fg ((len + values.length : Nat) : Int)
          (pre ++ List.replicate (len + values.length - k) default) it (k : Int) ins vals
        = (insertsLoop (len + values.length) slot values fm k ins it).map (fun r => .ok (pre ++ r)) := by
  intro fg
  induction fg with
  | zero => intro fm k pre it ins _ _ _ hf; omega
  | succ f ih =>
    intro fm k pre it ins hk hkn hfm hfg
    obtain ⟨fm', rfl⟩ : ∃ m, fm = m + 1 := ⟨fm - 1, by omega⟩
    unfold Generated.listInsertValues_loop1 insertsLoop
    generalize hN : len + values.length = n at *
    rw [w64_id (x := (n : Int)) (by unfold IsInt64 at *; omega), w64_id (x := (slot : Int)) (by unfold IsInt64 at *; omega)]
    by_cases hlt : k < n
    · have c : ((k : Int) < (n : Int)) := by omega
      simp only [c, decide_true, if_true, hlt]
      by_cases hi : k = slot ∧ ins = false
      · obtain ⟨hks, hins⟩ := hi
        subst hins
        subst hks
        simp only [beq_self_eq_true, Bool.not_false, Bool.and_self, if_true, and_self]
        have h2 := listInsertValues_loop2_tie (k : Int) values vals n (by unfold IsInt64 at *; omega) it true f k pre values
          hk (by omega) (by simp at hfg; omega)
        rw [h2]
        simp only [bindO_ok]
        have := ih fm' (k + values.length) (pre ++ values) it true (by simp [hk]) (by omega) (by simp at hfm ⊢; omega) (by simp at hfg ⊢; omega)
        rw [this]
        cases insertsLoop n k values fm' (k + values.length) true it <;> simp
      · have c2 : (((k : Int) == (slot : Int)) && !ins) = false := by
          cases ins <;> simp_all <;> omega
        simp only [c2, Bool.false_eq_true, if_false, hi]
        rw [w64_succN k (by unfold IsInt64 at *; omega), setValue_fill pre n k (itNext it).1 hk hlt]
        simp only [bindE_ok]
        have := ih fm' (k + 1) (pre ++ [(itNext it).1]) (itNext it).2 ins (by simp [hk]) (by omega) (by omega) (by omega)
        rw [this]
        cases insertsLoop n slot values fm' (k + 1) ins (itNext it).2 <;> simp
    · have c : ¬ ((k : Int) < (n : Int)) := by omega
      have e : n - k = 0 := by omega
      simp [c, hlt, e]

/-- `list_.InsertValues` as written in list.go = `Seq.insertValues` -/
theorem listInsertValues_tie (l vs : List α) (slot : Nat) (fuel : Nat)
    (hint : IsInt64 ((l.length : Int) + (vs.length : Int) + 2)) (hs : IsUint64 (slot : Int))
    (hfuel : l.length + 2 * vs.length + 3 < fuel) :
    Generated.listInsertValues (slot : Int) vs l fuel = Seq.insertValues l slot vs := by
  unfold Generated.listInsertValues Seq.insertValues
  rw [u64_id (x := (l.length : Int)) (by unfold IsUint64; unfold IsInt64 at hint; omega)]
  by_cases h : slot > l.length
  · have : ((slot : Int) > (l.length : Int)) := by omega
    simp [h, this]
  · have : ¬ ((slot : Int) > (l.length : Int)) := by omega
    simp only [this, h, decide_false, Bool.false_eq_true, if_false]
    have e : w64 ((l.length : Int) + (vs.length : Int)) = ((l.length + vs.length : Nat) : Int) := by
      rw [w64_id (by unfold IsInt64 at *; omega)]; omega
    rw [e, u64_id (by unfold IsUint64; unfold IsInt64 at hint; omega)]
    have hm := makeArray_ok (α := α) (l.length + vs.length) (by unfold IsInt64 at *; omega)
    simp only [hm, bindE_ok]
    have := listInsertValues_loop1_tie slot vs l l.length (by omega) (by unfold IsInt64 at *; omega)
      fuel (l.length + vs.length + 2) 0 [] l false rfl (by omega) (by simp) (by simp; omega)
    simp only [Nat.sub_zero, List.nil_append] at this
    have e0 : ((0 : Nat) : Int) = (0 : Int) := rfl
    rw [e0] at this
    rw [this]

/-! ### the methods that hand the call on to the array underneath (GetValue, GetValues, SetValue, SetValues, GetSize, IsEmpty) -/

theorem listGetValue_tie (l : List α) (index : Int) (fuel : Nat) :
    Generated.listGetValue index l fuel = some ((Seq.getValue l index).map (fun x => (x, l))) := by
  unfold Generated.listGetValue
  cases Seq.getValue l index <;> rfl

theorem listGetValues_tie (l : List α) (first last : Int) (fuel : Nat) :
    Generated.listGetValues first last l fuel = some ((Seq.getValues l first last).map (fun x => (x, l))) := by
  unfold Generated.listGetValues
  cases Seq.getValues l first last <;> rfl

theorem listSetValue_tie (l : List α) (index : Int) (v : α) (fuel : Nat) :
    Generated.listSetValue index v l fuel = some (Seq.setValue l index v) := by
  unfold Generated.listSetValue
  cases Seq.setValue l index v <;> rfl

theorem listSetValues_tie (l vs : List α) (index : Int) (fuel : Nat) :
    Generated.listSetValues index vs l fuel = some (Seq.setValues l index vs) := by
  unfold Generated.listSetValues
  cases Seq.setValues l index vs <;> rfl

theorem listGetSize_tie (l : List α) (fuel : Nat) :
    Generated.listGetSize l fuel = some (.ok ((l.length : Int), l)) := rfl

theorem listIsEmpty_tie (l : List α) (fuel : Nat) :
    Generated.listIsEmpty l fuel = some (.ok ((l.length == 0), l)) := rfl

/-! ### the class functions MakeFromSequence and Concatenate -/

theorem listMakeFromSequence_loop_tie (values : List α) (bound : Nat) (hb : IsInt64 ((bound : Int) + 2)) :
    ∀ (it acc : List α) (fuel : Nat), acc.length + it.length ≤ bound → acc.length + 2 * it.length + 1 < fuel →
      Generated.listMakeFromSequence_loop1 values fuel acc it = some (.ok (it.foldl Seq.appendValue acc)) := by
  intro it
  induction it with
  | nil =>
    intro acc fuel _ hf
    obtain ⟨f, rfl⟩ : ∃ k, fuel = k + 1 := ⟨fuel - 1, by omega⟩
    simp [Generated.listMakeFromSequence_loop1]
  | cons x xs ih =>
    intro acc fuel hlen hf
    obtain ⟨f, rfl⟩ : ∃ k, fuel = k + 1 := ⟨fuel - 1, by omega⟩
    simp only [List.length_cons] at hlen hf
    unfold Generated.listMakeFromSequence_loop1
    simp only [List.isEmpty_cons, Bool.not_false, if_true, Seq.itNext]
    rw [listAppendValue_tie acc x f (by unfold IsInt64 at *; omega) (by omega)]
    simp only [bindO_ok, List.foldl_cons]
    exact ih (Seq.appendValue acc x) f (by simp [Seq.appendValue]; omega) (by simp [Seq.appendValue]; omega)

/-- `listClass_.MakeFromSequence` as written in list.go = `Seq.makeFromSequence` -/
theorem listMakeFromSequence_tie (vs : List α) (fuel : Nat) (hb : IsInt64 ((vs.length : Int) + 2)) (hf : 2 * vs.length + 1 < fuel) :
    Generated.listMakeFromSequence vs fuel = some (.ok (Seq.makeFromSequence vs)) := by
  unfold Generated.listMakeFromSequence Seq.makeFromSequence
  exact listMakeFromSequence_loop_tie vs vs.length hb vs [] fuel (by simp) (by simpa using hf)

/-- `listClass_.Concatenate` as written in list.go = `Seq.concatenate` (C16) -/
theorem listConcatenate_tie (a b : List α) (fuel : Nat) (hb : IsInt64 ((a.length : Int) + (b.length : Int) + 2))
    (hf : a.length + b.length + 1 < fuel) :
    Generated.listConcatenate a b fuel = some (.ok (Seq.concatenate a b)) := by
  have e0 : (([] : List α).length : Int) = 0 := rfl
  have n0 : ([] : List α).length = 0 := rfl
  have h1 := listAppendValues_tie ([] : List α) a fuel (by rw [e0]; unfold IsInt64 at *; omega) (by rw [n0]; omega)
  have e1 : (Seq.appendValues ([] : List α) a) = a := by simp only [Seq.appendValues, List.nil_append]
  rw [e1] at h1
  have h2 := listAppendValues_tie a b fuel hb hf
  unfold Generated.listConcatenate Seq.concatenate
  rw [e1]
  show bindO (Generated.listAppendValues a [] fuel) (fun list => bindO (Generated.listAppendValues b list fuel) fun list => some (.ok list)) = _
  rw [h1, bindO_ok, h2, bindO_ok]

/-- non-vacuity: the translated code run on concrete lists -/
example : Generated.listInsertValue (1 : Int) (9 : Int) [1, 2, 3] 10 = some (.ok [1, 9, 2, 3]) := by rfl
example : Generated.listInsertValue (4 : Int) (9 : Int) [1, 2, 3] 10 = some (.error .slot) := by rfl
example : Generated.listRemoveValues (2 : Int) (-1 : Int) [(1 : Int), 2, 3, 4] 10 = some (.ok ([2, 3, 4], [1])) := by rfl
example : Generated.listRemoveValues (3 : Int) (1 : Int) [(1 : Int), 2, 3, 4] 10 = some (.error .rt) := by rfl
example : Generated.listInsertValues (1 : Int) [(7 : Int), 8] [1, 2] 20 = some (.ok [1, 7, 8, 2]) := by rfl

end Tie
end CM
