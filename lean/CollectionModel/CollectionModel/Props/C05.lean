/-
  C05 — Queue never loses a wake-up: blocked calls resume whenever they can proceed.

  In the model a blocked call is a thread whose next step is not enabled.  The statements
  below hold in every reachable state (accounting invariant) for every number of threads.
  Real wake-ups are the Go runtime's business: the model assumes the textbook channel, and
  the correspondence run (controlled scheduler, all schedules of small programs) ties it to
  the code.  Termination of every well-formed program for all thread counts is NOT proved in
  Lean (finite exploration only); stranding after a concurrent RemoveAll is a recorded finding.
-/
import CollectionModel.Props.C04
namespace CM
open CM.Q

variable {α : Type} [DecidableEq α]

/-- a blocked RemoveHead proceeds exactly when a token is available or the queue is closed -/
theorem C05_recv_enabled_iff (s : St α) (t : Nat) (h : s.threads[t]? = some .remRecv) :
    ((step s (.remRecv t true)).isSome = true ↔ 0 < s.tokens) ∧
    ((step s (.remRecv t false)).isSome = true ↔ (s.tokens = 0 ∧ s.closed = true)) := by
  simp only [step, h, if_true]
  constructor
  · by_cases hp : 0 < s.tokens <;> simp [hp]
  · simp only [Bool.false_eq_true, if_false]
    by_cases hp : s.tokens = 0 ∧ s.closed = true <;> simp [hp]

/-- a blocked AddValue proceeds exactly when the channel has room (or panics if it was closed) -/
theorem C05_send_enabled_iff (s : St α) (t : Nat) (h : s.threads[t]? = some .addSend) :
    ((step s (.addSend t)).isSome = true ↔ (s.closed = false ∧ s.tokens < s.cap)) := by
  simp only [step, h, true_and]
  by_cases hp : s.closed = false ∧ s.tokens < s.cap <;> simp [hp]

/-- **no lost wake-up**: a consumer blocked on an empty open queue and a producer blocked on a
    full queue never coexist (capacity ≥ 1): whenever both kinds of call are pending, one of
    them can proceed -/
theorem C05_no_mutual_block (s : St α) (hcap : 1 ≤ s.cap) (t1 t2 : Nat)
    (h1 : s.threads[t1]? = some .remRecv) (h2 : s.threads[t2]? = some .addSend) (hopen : s.closed = false) :
    (step s (.remRecv t1 true)).isSome = true ∨ (step s (.addSend t2)).isSome = true := by
  by_cases hp : 0 < s.tokens
  · exact Or.inl ((C05_recv_enabled_iff s t1 h1).1.mpr hp)
  · exact Or.inr ((C05_send_enabled_iff s t2 h2).mpr ⟨hopen, by omega⟩)

/-- **a blocked RemoveHead resumes once a value is added**: after the producer's send the consumer is enabled -/
theorem C05_recv_after_send (s s' : St α) (t1 t2 : Nat) (h1 : s.threads[t1]? = some .remRecv) (hne : t1 ≠ t2)
    (h : step s (.addSend t2) = some s') : (step s' (.remRecv t1 true)).isSome = true := by
  simp only [step] at h
  split at h
  · cases h
    have ht : (s.threads.set t2 PC.idle)[t1]? = some .remRecv := by
      rw [List.getElem?_set_ne (by omega)]; exact h1
    simp [step, ht]
  · cases h

/-- **a blocked RemoveHead resumes once the queue is closed** (it receives a token, or reports closed-and-drained) -/
theorem C05_recv_after_close (s s' : St α) (t1 t2 : Nat) (h1 : s.threads[t1]? = some .remRecv) (hne : t1 ≠ t2)
    (h : step s (.closeLock t2) = some s') :
    (step s' (.remRecv t1 true)).isSome = true ∨ (step s' (.remRecv t1 false)).isSome = true := by
  simp only [step] at h
  split at h
  · cases h
    have ht : (s.threads.set t2 PC.idle)[t1]? = some .remRecv := by
      rw [List.getElem?_set_ne (by omega)]; exact h1
    by_cases hp : 0 < s.tokens
    · left; simp [step, ht, hp]
    · right
      have hz : s.tokens = 0 := by omega
      simp [step, ht, hz]
  · cases h

/-- **a blocked AddValue resumes once a value is removed** (a token is received) -/
theorem C05_send_after_recv (s s' : St α) (hs : QInv s) (t1 t2 : Nat) (h1 : s.threads[t1]? = some .addSend) (hne : t1 ≠ t2)
    (hopen : s.closed = false) (h : step s (.remRecv t2 true) = some s') : (step s' (.addSend t1)).isSome = true := by
  simp only [step] at h
  split at h
  · simp only [if_true] at h
    split at h
    · rename_i hpos
      cases h
      have ht : (s.threads.set t2 PC.remLock)[t1]? = some .addSend := by
        rw [List.getElem?_set_ne (by omega)]; exact h1
      have := hs.2.1
      have hlt : s.tokens - 1 < s.cap := by omega
      simp [step, ht, hopen, hlt]
    · cases h
  · cases h

/-- the events of `MakeFromSequence`: AddValue for every value in turn, by one thread -/
def Q.ctorTrace : List α → List (Ev α)
  | [] => []
  | v :: vs => .call 0 (.addLock v) :: .addLock 0 :: .addSend 0 :: Q.ctorTrace vs

/-- **constructing a queue from N initial values returns for every N** (after fix D05b the
    capacity is at least N): every AddValue of the constructor finds room, none blocks -/
theorem C05_ctor_returns : ∀ (vs : List α) (s : St α), s.threads[0]? = some .idle → s.closed = false →
    s.tokens + vs.length ≤ s.cap → (run s (Q.ctorTrace vs)).isSome = true
  | [], s, _, _, _ => by simp [Q.ctorTrace, run]
  | v :: vs, s, h0, hc, hcap => by
    have hlen : 0 < s.threads.length := by
      cases hh : s.threads with
      | nil => simp [hh] at h0
      | cons _ _ => simp
    simp only [List.length_cons] at hcap
    have hlt : s.tokens < s.cap := by omega
    simp only [Q.ctorTrace, run]
    have e1 : step s (.call 0 (.addLock v)) = some (setPC s 0 (.addLock v)) := by simp [step, h0]
    rw [e1]; simp only
    have t1 : (setPC s 0 (.addLock v)).threads[0]? = some (.addLock v) := by simp [hlen]
    simp only [step, t1]
    have t2 : (setPC (setPC s 0 (.addLock v)) 0 .addSend).threads[0]? = some .addSend := by simp [hlen]
    simp only [run, step, setPC_threads, setPC_closed, setPC_tokens, setPC_cap]
    have t2' : ((s.threads.set 0 (PC.addLock v)).set 0 PC.addSend)[0]? = some PC.addSend := by simp [hlen]
    simp only [t2', hc, hlt, and_self, if_true]
    apply C05_ctor_returns vs
    · simp [hlen]
    · rfl
    · show s.tokens + 1 + vs.length ≤ s.cap
      omega

/-- **recorded finding D05a**: RemoveAll replaces the channel, so a call parked on the old one is never
    woken; in the model (which keeps one channel) the symptom is the broken accounting: a token
    without a value (cf. C04_counterexample_removeall) -/
theorem C05_counterexample_removeall_breaks_accounting :
    ∃ s : St Nat, run (init 2 3) [.call 0 (.addLock 7), .addLock 0, .call 2 .removeAllLock, .removeAllLock 2, .addSend 0] = some s ∧
      s.tokens = 1 ∧ s.vals = [] := by
  refine ⟨_, rfl, ?_, ?_⟩ <;> decide

end CM
