package main

// Map (C14), Catalog (C03) and the catalog class functions (C16).

import (
	"sort"

	age "github.com/craterdog/go-collection-framework/v4/agent"
	col "github.com/craterdog/go-collection-framework/v4/collection"
)

// KCodec maps key ids to comparable Go keys (id equality == Go `==` on the keys).
type KCodec[K comparable] struct {
	name string
	from func(id int) K
	to   func(k K) int
}

func intKeys() KCodec[int] {
	return KCodec[int]{"int", func(id int) int { return id }, func(k int) int { return k }}
}
func stringKeys() KCodec[string] {
	c := stringCodec()
	return KCodec[string]{"string", c.from, c.to}
}
func runeKeys() KCodec[rune] {
	return KCodec[rune]{"rune", func(id int) rune { return rune(0x40 + id) }, func(k rune) int { return int(k) - 0x40 }}
}
func floatKeys() KCodec[float64] {
	c := floatCodec()
	return KCodec[float64]{"float64", c.from, c.to}
}
func anyKeys() KCodec[any] {
	c := anyCodec()
	return KCodec[any]{"any", func(id int) any { return c.from(id + 249) }, func(k any) int { return c.to(k) - 249 }}
}

// pointer keys: distinct pointers, several with structurally equal content
var ptrCells = [12]int{5, 5, 7, 7, 5, 9, 9, 7, 5, 5, 7, 9}

func ptrKeys() KCodec[*int] {
	return KCodec[*int]{"*int", func(id int) *int { return &ptrCells[id] }, func(k *int) int {
		for i := range ptrCells {
			if k == &ptrCells[i] {
				return i
			}
		}
		return -1
	}}
}

type assocTarget[K comparable] struct {
	kc   KCodec[K]
	kind string // "map" | "cat"
	m    col.MapLike[K, int]
	c    col.CatalogLike[K, int]
	u    []int // universe of key ids (for the observable key index)
	out  *Out
}

type kv = [2]int

func (t *assocTarget[K]) pairsOf(as []col.AssociationLike[K, int]) []kv {
	out := make([]kv, len(as))
	for i, a := range as {
		out[i] = kv{t.kc.to(a.GetKey()), a.GetValue()}
	}
	return out
}

func (t *assocTarget[K]) contents() []kv {
	var ps []kv
	switch {
	case t.kind == "map" && t.m != nil:
		ps = t.pairsOf(t.m.AsArray())
		sort.Slice(ps, func(i, j int) bool { return ps[i][0] < ps[j][0] })
	case t.kind == "cat" && t.c != nil:
		ps = t.pairsOf(t.c.AsArray())
	}
	if ps == nil {
		ps = []kv{}
	}
	return ps
}

func (t *assocTarget[K]) keyIndex() []kv {
	out := []kv{}
	if t.kind != "cat" || t.c == nil {
		return out
	}
	for _, id := range t.u {
		out = append(out, kv{id, t.c.GetValue(t.kc.from(id))})
	}
	return out
}

func (t *assocTarget[K]) keySeq(ids []int) col.Sequential[K] {
	ks := make([]K, len(ids))
	for i, id := range ids {
		ks[i] = t.kc.from(id)
	}
	return col.Array[K](notation).MakeFromArray(ks)
}

func (t *assocTarget[K]) assocs(ps []kv) []col.AssociationLike[K, int] {
	out := make([]col.AssociationLike[K, int], len(ps))
	for i, p := range ps {
		out[i] = col.Association[K, int](notation).Make(t.kc.from(p[0]), p[1])
	}
	return out
}

func (t *assocTarget[K]) newCatalog(ps []kv) col.CatalogLike[K, int] {
	c := col.Catalog[K, int](notation).Make()
	for _, p := range ps {
		c.SetValue(t.kc.from(p[0]), p[1])
	}
	return c
}

type aop struct {
	op    string
	a     []int
	vs    []int
	ps    []kv
	qs    []kv
	rk    string
	alias string
	via   int // which constructor
}

func (t *assocTarget[K]) line(caseID int, o aop) callResult {
	kc := t.kc
	pre, km := t.contents(), t.keyIndex()
	arg := func(i int) int {
		if i < len(o.a) {
			return o.a[i]
		}
		return 0
	}
	var res any
	extra := J{}
	isMap := t.kind == "map"
	cr := guarded(opTimeout, func() {
		switch o.op {
		case "make":
			as := t.assocs(o.ps)
			if len(o.ps) == 0 && o.via%4 >= 2 {
				as = nil // a nil Go array is an empty array
			}
			if isMap {
				class := col.Map[K, int](notation)
				switch o.via % 3 {
				case 0:
					t.m = class.MakeFromArray(as)
				case 1:
					if o.via%6 == 4 {
						// the source sequence is itself a Map: the new Map is a copy of it, not another name for it
						src := class.MakeFromArray(as)
						t.m = class.MakeFromSequence(src)
						for _, a := range as {
							src.SetValue(a.GetKey(), -66)
						}
						src.SetValue(kc.from(0), -67)
						src.RemoveAll()
					} else {
						t.m = class.MakeFromSequence(col.List[col.AssociationLike[K, int]](notation).MakeFromArray(as))
					}
				default:
					gm := map[K]int{}
					if len(o.ps) == 0 && o.via%6 == 5 {
						gm = nil // a nil Go map is an empty map: the new Map must still be usable
					}
					for _, p := range o.ps {
						gm[kc.from(p[0])] = p[1]
					}
					t.m = class.MakeFromMap(gm)
					for k := range gm {
						gm[k] = -77 // the Go map must have been copied
					}
				}
			} else {
				class := col.Catalog[K, int](notation)
				switch o.via % 2 {
				case 0:
					t.c = class.MakeFromArray(as)
				default:
					if o.via%4 == 3 {
						// the source sequence is itself a Catalog
						src := class.MakeFromArray(as)
						t.c = class.MakeFromSequence(src)
						for _, a := range as {
							src.SetValue(a.GetKey(), -66)
						}
						src.RemoveAll()
					} else {
						t.c = class.MakeFromSequence(col.List[col.AssociationLike[K, int]](notation).MakeFromArray(as))
					}
				}
			}
			for _, a := range as {
				a.SetValue(-55) // associations passed in must have been copied
			}
		case "setValue":
			if isMap {
				t.m.SetValue(kc.from(arg(0)), arg(1))
			} else {
				t.c.SetValue(kc.from(arg(0)), arg(1))
			}
		case "getValue":
			if isMap {
				res = J{"v": t.m.GetValue(kc.from(arg(0)))}
			} else {
				res = J{"v": t.c.GetValue(kc.from(arg(0)))}
			}
		case "getValues":
			if isMap {
				res = J{"l": ints(t.m.GetValues(t.keySeq(o.vs)).AsArray())}
			} else {
				res = J{"l": ints(t.c.GetValues(t.keySeq(o.vs)).AsArray())}
			}
		case "getKeys":
			var ks []K
			if isMap {
				ks = t.m.GetKeys().AsArray()
			} else {
				ks = t.c.GetKeys().AsArray()
			}
			ids := make([]int, len(ks))
			for i, k := range ks {
				ids[i] = kc.to(k)
			}
			res = J{"ks": ints(ids)}
		case "removeValue":
			if isMap {
				res = J{"v": t.m.RemoveValue(kc.from(arg(0)))}
			} else {
				res = J{"v": t.c.RemoveValue(kc.from(arg(0)))}
			}
		case "removeValues":
			if isMap {
				res = J{"l": ints(t.m.RemoveValues(t.keySeq(o.vs)).AsArray())}
			} else {
				res = J{"l": ints(t.c.RemoveValues(t.keySeq(o.vs)).AsArray())}
			}
		case "removeAll":
			if isMap {
				t.m.RemoveAll()
			} else {
				t.c.RemoveAll()
			}
		case "sort":
			if o.rk == "byval" {
				t.c.SortValuesWithRanker(func(x, y col.AssociationLike[K, int]) age.Rank {
					if r := cmpInt(y.GetValue(), x.GetValue()); r != age.EqualRank {
						return r
					}
					return cmpInt(kc.to(x.GetKey()), kc.to(y.GetKey()))
				})
			} else {
				t.c.SortValues()
			}
		case "reverse":
			t.c.ReverseValues()
		case "shuffle":
			t.c.ShuffleValues()
		case "asArray":
			if isMap {
				res = J{"ps": t.pairsOf(t.m.AsArray())}
			} else {
				res = J{"ps": t.pairsOf(t.c.AsArray())}
			}
		case "iterate":
			if isMap {
				res = J{"ps": t.pairsOf(walk[col.AssociationLike[K, int]](t.m))}
			} else {
				res = J{"ps": t.pairsOf(walk[col.AssociationLike[K, int]](t.c))}
			}
		case "getSize":
			if isMap {
				res = J{"n": t.m.GetSize()}
			} else {
				res = J{"n": t.c.GetSize()}
			}
		case "isEmpty":
			if isMap {
				res = J{"b": t.m.IsEmpty()}
			} else {
				res = J{"b": t.c.IsEmpty()}
			}
		case "merge":
			a := t.newCatalog(o.ps)
			b := t.newCatalog(o.qs)
			if o.alias == "same" {
				b = a
			}
			r := col.Catalog[K, int](notation).Merge(a, b)
			t.c = r
			extra["aft_a"] = t.pairsOf(a.AsArray())
			extra["aft_b"] = t.pairsOf(b.AsArray())
			extra["indep"] = t.independent(r, a, b)
		case "extract":
			a := t.newCatalog(o.ps)
			keys := t.keySeq(o.vs)
			if o.alias == "ownkeys" {
				keys = a.GetKeys()
			}
			r := col.Catalog[K, int](notation).Extract(a, keys)
			t.c = r
			extra["aft_a"] = t.pairsOf(a.AsArray())
			extra["indep"] = t.independent(r, a, nil)
		default:
			panic("harness: unknown assoc op " + o.op)
		}
	})
	if o.op == "extract" && o.alias == "ownkeys" {
		o.vs = make([]int, len(o.ps))
		for i, p := range o.ps {
			o.vs[i] = p[0]
		}
	}
	if o.op == "merge" && o.alias == "same" {
		o.qs = o.ps
	}
	j := J{"k": t.kind, "case": caseID, "ty": kc.name, "pre": pre, "km": km, "op": o.op, "a": ints(o.a), "vs": ints(o.vs),
		"out": cr.kind, "post": t.contents(), "pkm": t.keyIndex()}
	if o.ps != nil || o.op == "make" || o.op == "merge" || o.op == "extract" {
		j["ps"] = kvs(o.ps)
	}
	if o.op == "merge" {
		j["qs"] = kvs(o.qs)
	}
	if o.rk != "" {
		j["rk"] = o.rk
	}
	if o.alias != "" {
		j["alias"] = o.alias
	}
	if cr.kind == "ret" {
		j["res"] = res
	} else if cr.kind == "panic" {
		j["pc"], j["msg"] = cr.pc, cr.msg
	}
	for k, v := range extra {
		j[k] = v
	}
	t.out.emit(j)
	return cr
}

func kvs(ps []kv) []kv {
	if ps == nil {
		return []kv{}
	}
	return ps
}

// independent: changing the result leaves the operands alone and vice versa
func (t *assocTarget[K]) independent(r, a, b col.CatalogLike[K, int]) bool {
	snapR := t.pairsOf(r.AsArray())
	snapA := t.pairsOf(a.AsArray())
	var snapB []kv
	if b != nil {
		snapB = t.pairsOf(b.AsArray())
	}
	probe := t.kc.from(11)
	r.SetValue(probe, 123)
	for _, p := range snapR {
		r.SetValue(t.kc.from(p[0]), p[1]+1000)
	}
	ok := eqKV(t.pairsOf(a.AsArray()), snapA) && (b == nil || eqKV(t.pairsOf(b.AsArray()), snapB))
	r.RemoveValue(probe)
	for _, p := range snapR {
		r.SetValue(t.kc.from(p[0]), p[1])
	}
	for _, p := range snapA {
		a.SetValue(t.kc.from(p[0]), p[1]+2000)
	}
	a.SetValue(probe, 321)
	if b != nil && b != a {
		b.RemoveAll()
	}
	return ok && eqKV(t.pairsOf(r.AsArray()), snapR)
}

func eqKV(a, b []kv) bool {
	if len(a) != len(b) {
		return false
	}
	for i := range a {
		if a[i] != b[i] {
			return false
		}
	}
	return true
}

// orderedSubsets: every subset of u in every order (permutations of subsets)
func orderedSubsets(u []int) [][]int {
	out := [][]int{{}}
	var rec func(cur []int, used int)
	rec = func(cur []int, used int) {
		for i, x := range u {
			if used&(1<<i) == 0 {
				nxt := append(append([]int{}, cur...), x)
				out = append(out, nxt)
				rec(nxt, used|1<<i)
			}
		}
	}
	rec(nil, 0)
	return out
}

func runAssocType[K comparable](kind, tier string, rng Rng, out *Out, kc KCodec[K], u []int, absent []int, caseID *int, sortable bool) {
	vals := []int{0, 5, 5, 6, 7}
	val := func() int { return vals[rng.Intn(len(vals))] }
	all := append(append([]int{}, u...), absent...)
	mk := func() *assocTarget[K] { return &assocTarget[K]{kc: kc, kind: kind, u: all, out: out} }
	// every single step from states built over ordered subsets of (a prefix of) the universe
	states := orderedSubsets(u[:3])
	if tier == "thorough" {
		states = orderedSubsets(u[:4])
	}
	states = append(states, u)
	for si, st := range states {
		ps := make([]kv, len(st))
		for i, k := range st {
			ps[i] = kv{k, vals[(i+si)%len(vals)]}
		}
		var ops []aop
		for _, k := range all {
			ops = append(ops, aop{op: "setValue", a: []int{k, 9}}, aop{op: "setValue", a: []int{k, 0}},
				aop{op: "getValue", a: []int{k}}, aop{op: "removeValue", a: []int{k}})
		}
		for _, ks := range [][]int{{}, {u[0]}, all, {u[0], absent[0], u[0]}, {u[2], u[1], u[2], u[0]}} {
			ops = append(ops, aop{op: "getValues", vs: ks}, aop{op: "removeValues", vs: ks})
		}
		for _, name := range []string{"getKeys", "removeAll", "asArray", "iterate", "getSize", "isEmpty"} {
			ops = append(ops, aop{op: name})
		}
		if kind == "cat" {
			ops = append(ops, aop{op: "reverse"}, aop{op: "shuffle"})
			if sortable {
				ops = append(ops, aop{op: "sort"}, aop{op: "sort", rk: "byval"})
			}
		}
		for _, o := range ops {
			*caseID++
			t := mk()
			t.line(*caseID, aop{op: "make", ps: ps, via: si})
			t.line(*caseID, o)
		}
	}
	// constructors with repeated keys (the last one wins / first position kept)
	for rep := 0; rep < 40; rep++ {
		*caseID++
		n := rng.Intn(9)
		ps := make([]kv, n)
		for i := range ps {
			ps[i] = kv{u[rng.Intn(len(u))], val()}
		}
		t := mk()
		t.line(*caseID, aop{op: "make", ps: ps, via: rep})
		t.line(*caseID, aop{op: "asArray"})
	}
	// random histories
	hist, steps := 30, 50
	if tier == "thorough" {
		hist, steps = 300, 100
	}
	for h := 0; h < hist; h++ {
		*caseID++
		t := mk()
		t.line(*caseID, aop{op: "make", ps: []kv{}, via: h})
		for s := 0; s < steps; s++ {
			k := all[rng.Intn(len(all))]
			switch r := rng.Intn(16); {
			case r < 6:
				t.line(*caseID, aop{op: "setValue", a: []int{k, val()}})
			case r < 9:
				t.line(*caseID, aop{op: "removeValue", a: []int{k}})
			case r == 9:
				t.line(*caseID, aop{op: "getValue", a: []int{k}})
			case r == 10:
				ks := make([]int, rng.Intn(5))
				for i := range ks {
					ks[i] = all[rng.Intn(len(all))]
				}
				t.line(*caseID, aop{op: []string{"getValues", "removeValues"}[rng.Intn(2)], vs: ks})
			case r == 11:
				t.line(*caseID, aop{op: "getKeys"})
			case r == 12:
				t.line(*caseID, aop{op: "asArray"})
			case r == 13:
				t.line(*caseID, aop{op: "iterate"})
			default:
				if kind == "cat" {
					name := []string{"reverse", "shuffle", "sort", "sort"}[rng.Intn(4)]
					if name == "sort" && !sortable {
						name = "reverse"
					}
					o := aop{op: name}
					if name == "sort" && rng.Intn(2) == 0 {
						o.rk = "byval"
					}
					t.line(*caseID, o)
				} else {
					t.line(*caseID, aop{op: "getSize"})
				}
			}
		}
	}
}

func runC14(tier string, seed int64, out *Out) {
	rng := newRng(seed)
	caseID := 0
	runAssocType("map", tier, rng, out, stringKeys(), []int{1, 2, 3, 4, 5}, []int{7, 8}, &caseID, false)
	runAssocType("map", tier, rng, out, intKeys(), []int{1, 2, 3, 4, 5}, []int{0, 8}, &caseID, false)
	runAssocType("map", tier, rng, out, runeKeys(), []int{1, 2, 3, 4, 5}, []int{7, 8}, &caseID, false)
	runAssocType("map", tier, rng, out, anyKeys(), []int{1, 2, 3, 252, 253}, []int{0, 254}, &caseID, false)
}

func runC03(tier string, seed int64, out *Out) {
	rng := newRng(seed)
	caseID := 0
	runAssocType("cat", tier, rng, out, stringKeys(), []int{1, 2, 3, 4, 5}, []int{7, 8}, &caseID, true)
	runAssocType("cat", tier, rng, out, intKeys(), []int{1, 2, 3, 4, 5}, []int{0, 8}, &caseID, true)
	runAssocType("cat", tier, rng, out, runeKeys(), []int{1, 2, 3, 4, 5}, []int{7, 8}, &caseID, true)
	runAssocType("cat", tier, rng, out, floatKeys(), []int{1, 2, 3, 4, 5}, []int{0, 8}, &caseID, true)
	runAssocType("cat", tier, rng, out, anyKeys(), []int{1, 2, 3, 252, 253}, []int{0, 254}, &caseID, true)
	// pointer keys: distinct keys with structurally equal content (not sortable: ties between distinct keys)
	runAssocType("cat", tier, rng, out, ptrKeys(), []int{0, 1, 2, 3, 4}, []int{7, 8}, &caseID, false)
}

func runC16(tier string, seed int64, out *Out) {
	rng := newRng(seed)
	caseID := 0
	kc := stringKeys()
	u := []int{1, 2, 3, 4}
	subs := orderedSubsets(u) // 65 ordered subsets
	mk := func() *assocTarget[string] { return &assocTarget[string]{kc: kc, kind: "cat", u: []int{1, 2, 3, 4, 7}, out: out} }
	withVals := func(keys []int, base int) []kv {
		ps := make([]kv, len(keys))
		for i, k := range keys {
			ps[i] = kv{k, base + k}
		}
		return ps
	}
	stride := 7
	if tier == "thorough" {
		stride = 1
	}
	// Merge: all pairs of catalogs whose keys are ordered subsets of a 4-key universe; values make the winner observable
	n := 0
	for _, a := range subs {
		for _, b := range subs {
			n++
			if n%stride != 0 {
				continue
			}
			caseID++
			mk().line(caseID, aop{op: "merge", ps: withVals(a, 10), qs: withVals(b, 20)})
		}
		caseID++
		mk().line(caseID, aop{op: "merge", ps: withVals(a, 10), alias: "same"})
	}
	// Extract: key sequences over present, absent and repeated keys; zero values under present keys
	for _, a := range subs {
		ps := withVals(a, 10)
		if len(ps) > 0 {
			ps[0][1] = 0 // a zero value stored under a present key
		}
		for _, ks := range [][]int{{}, {1}, {7}, {7, 1}, {2, 7, 1, 2}, {4, 3, 2, 1}, {1, 1, 1}, {3, 7, 7, 4}} {
			caseID++
			mk().line(caseID, aop{op: "extract", ps: ps, vs: ks})
		}
		caseID++
		mk().line(caseID, aop{op: "extract", ps: ps, alias: "ownkeys"})
	}
	// other key types and random larger cases
	for rep := 0; rep < 60; rep++ {
		caseID++
		ti := &assocTarget[int]{kc: intKeys(), kind: "cat", u: []int{0, 1, 2, 3, 4, 5, 6, 7, 8, 9}, out: out}
		mkps := func() []kv {
			seen := map[int]bool{}
			var ps []kv
			for i := rng.Intn(9); i > 0; i-- {
				k := rng.Intn(10)
				if !seen[k] {
					seen[k] = true
					ps = append(ps, kv{k, rng.Intn(4)})
				}
			}
			return ps
		}
		ti.line(caseID, aop{op: "merge", ps: mkps(), qs: mkps()})
		ks := make([]int, rng.Intn(8))
		for i := range ks {
			ks[i] = rng.Intn(10)
		}
		caseID++
		ti2 := &assocTarget[int]{kc: intKeys(), kind: "cat", u: []int{0, 1, 2, 3, 4, 5, 6, 7, 8, 9}, out: out}
		ti2.line(caseID, aop{op: "extract", ps: mkps(), vs: ks})
	}
	// Concatenate: all pairs of lists over a 3-value alphabet up to length 4 (quick: strided)
	var lists [][]int
	var rec func(cur []int)
	rec = func(cur []int) {
		lists = append(lists, cur)
		if len(cur) == 4 {
			return
		}
		for _, x := range []int{1, 2, 3} {
			rec(append(append([]int{}, cur...), x))
		}
	}
	rec([]int{})
	cstride := 23
	if tier == "thorough" {
		cstride = 1
	}
	n = 0
	for _, a := range lists {
		for _, b := range lists {
			n++
			if n%cstride != 0 && len(a) != 0 && len(b) != 0 {
				continue // (pairs with an empty operand are always run: fast paths live there)
			}
			caseID++
			t := &seqTarget[int]{c: intCodec(), kind: "list"}
			concatLine(out, caseID, t, a, b, "")
		}
		caseID++
		t := &seqTarget[int]{c: intCodec(), kind: "list"}
		concatLine(out, caseID, t, a, a, "self")
	}
}

// concatLine: Concatenate with purity probes (operands unchanged, result independent)
func concatLine(out *Out, caseID int, t *seqTarget[int], a, b []int, alias string) {
	la := col.List[int](notation).MakeFromArray(a)
	lb := col.List[int](notation).MakeFromArray(b)
	if alias == "self" {
		lb = la
	}
	var r col.ListLike[int]
	cr := guarded(opTimeout, func() { r = col.List[int](notation).Concatenate(la, lb) })
	j := J{"k": "seq", "case": caseID, "ty": "int", "tg": "list", "pre": []int{}, "op": "concatenate", "a": []int{},
		"vs": ints(a), "ws": ints(b), "out": cr.kind}
	if alias != "" {
		j["alias"] = alias
	}
	if cr.kind == "ret" {
		j["post"] = ints(r.AsArray())
		j["res"] = nil
		pure := eqInts(la.AsArray(), a) && eqInts(lb.AsArray(), b)
		snap := r.AsArray()
		// in-place writes first (no structural change, so a shared backing array stays shared)
		if r.GetSize() > 0 {
			r.SetValue(-1, 95)
			r.ReverseValues()
			pure = pure && eqInts(la.AsArray(), a) && eqInts(lb.AsArray(), b)
			r.ReverseValues()
			r.SetValue(-1, snap[len(snap)-1])
		}
		if la.GetSize() > 0 && alias == "" {
			la.SetValue(1, 94)
			pure = pure && eqInts(r.AsArray(), snap)
			la.SetValue(1, a[0])
		}
		if lb.GetSize() > 0 && alias == "" {
			lb.SetValue(-1, 93)
			lb.ReverseValues()
			pure = pure && eqInts(r.AsArray(), snap)
			lb.ReverseValues()
			lb.SetValue(-1, b[len(b)-1])
		}
		r.AppendValue(99)
		if r.GetSize() > 1 {
			r.SetValue(1, 98)
		}
		pure = pure && eqInts(la.AsArray(), a) && eqInts(lb.AsArray(), b)
		la.AppendValue(97)
		lb.InsertValue(0, 96)
		r.RemoveValue(-1)
		if len(snap) > 0 {
			r.SetValue(1, snap[0])
		}
		pure = pure && eqInts(r.AsArray(), snap)
		if !pure {
			j["stale"] = "concatenate: operands or result share state"
		}
	} else if cr.kind == "panic" {
		j["post"], j["pc"], j["msg"] = []int{}, cr.pc, cr.msg
	}
	out.emit(j)
}
