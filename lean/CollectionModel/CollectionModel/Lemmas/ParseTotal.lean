/-
  The parse methods of the parser model, one lemma each: from a well-formed state and with
  enough fuel, a method returns a value (having consumed a prefix of the stream), reports
  `ok = false` (having restored the stream), or raises the located diagnostic — never a Go
  runtime error, never a full push-back stack, never a hang.
-/
import CollectionModel.Lemmas.ParseLemmas
namespace CM
namespace Cdcn

variable (env : Env)

/-- the loops of the parser never report `ok = false` -/
def NotNo {α : Type} : PR α → Prop
  | .no _ _ => False
  | _ => True

/-- induction hypothesis: every method behaves at fuel `f` -/
structure IH (f : Nat) : Prop where
  value : ∀ s, WF env s → Fuel 2 f s → Post env 1 s (parseValue env f s)
  collection : ∀ s, WF env s → Fuel 1 f s → Post env 1 s (parseCollection env f s)
  sequence : ∀ s, WF env s → Fuel 0 f s → Post env 1 s (parseSequence env f s)
  items : ∀ s, WF env s → Fuel 5 f s → Post env 3 s (parseItems env f s)
  assocs : ∀ s, WF env s → Fuel 2 f s → Post env 3 s (parseAssociations env f s)
  assoc : ∀ s, WF env s → Fuel 0 f s → Post env 2 s (parseAssociation env f s)
  inlineAssocs : ∀ s, WF env s → Fuel 1 f s → Post env 2 s (parseInlineAssociations env f s)
  inlineAssocLoop : ∀ acc a s, WF env s → Fuel 0 f s → Post env 0 s (inlineAssocLoop env f acc a s) ∧ NotNo (inlineAssocLoop env f acc a s)
  multiAssocs : ∀ s, WF env s → Fuel 1 f s → Post env 3 s (parseMultilineAssociations env f s)
  multiAssocLoop : ∀ acc a tok s, WF env s → Fuel 0 f s → Post env 0 s (multiAssocLoop env f acc a tok s) ∧ NotNo (multiAssocLoop env f acc a tok s)
  values : ∀ s, WF env s → Fuel 4 f s → Post env 1 s (parseValues env f s)
  inlineValues : ∀ s, WF env s → Fuel 3 f s → Post env 1 s (parseInlineValues env f s)
  inlineValuesLoop : ∀ acc v s, WF env s → Fuel 0 f s → Post env 0 s (inlineValuesLoop env f acc v s) ∧ NotNo (inlineValuesLoop env f acc v s)
  multiValues : ∀ s, WF env s → Fuel 1 f s → Post env 1 s (parseMultilineValues env f s)
  multiValuesLoop : ∀ acc v s, WF env s → Fuel 0 f s → Post env 0 s (multiValuesLoop env f acc v s) ∧ NotNo (multiValuesLoop env f acc v s)


/-- a consumed token is not the EOF sentinel when the method asked for another type -/
theorem ne_eof_of_tt {t : Token} {tt : TT} (h : t.tt = tt) (hne : tt ≠ .eof) : t.tt ≠ .eof := by rw [h]; exact hne

/-- no fuel is needed where there are no tokens: with the EOF sentinel in the stream, fuel 0 is never enough -/
theorem fuel_zero_absurd {off : Nat} {s : PS} (hw : WF env s) (hf : Fuel off 0 s) : False := by
  obtain ⟨pre, e, he, _, _⟩ := hw.sentinel
  unfold Fuel at hf
  rw [he] at hf; simp at hf

theorem ih_zero : IH env 0 := by
  constructor <;> intros <;> exact (fuel_zero_absurd env (by assumption) (by assumption)).elim

theorem parseValue_good (hcap : 3 < env.stackSize) (f : Nat) (ih : IH env f) (s : PS) (hw : WF env s) (hf : Fuel 2 (f + 1) s) :
    Post env 1 s (parseValue env (f + 1) s) := by
  simp only [parseValue]
  have hp := parseIntrinsic_spec env hcap s hw
  generalize parseIntrinsic env s = r at hp ⊢
  cases hp with
  | diag t => exact Post.diag t
  | ok v t s' h1 h2 hw' h5 _ => exact Post.ok _ _ _ hw' ⟨[t], by simp [h1]⟩ h5
  | no tok s' h1 h2 h3 h5 =>
    simp only
    have hc := ih.collection s' h3 (by unfold Fuel at hf ⊢; rw [h1]; omega)
    exact Post.of_same env h1 (by omega) (Nat.le_refl 1) hc

theorem mkCollection_good (hset : ∀ items, (env.mkSet items).isSome) (ctx : List Nat) (items : List Val)
    (tok : Option Token) (s0 s : PS) (hw : WF env s)
    (hctx : ctx ∈ ctxNames) (ht : TokOk env tok) (hpre : ∃ pre, stream s0 = pre ++ stream s) :
    Post env 1 s0 (mkCollection env ctx items tok s) := by
  have okc : ∀ v : Val, Post env 1 s0 (PR.ok v tok s) := fun v => Post.ok v tok s hw hpre ht
  obtain ⟨t', hfail⟩ := fail_diag env (α := Val) tok ht
  unfold mkCollection
  simp only []
  split
  · exact okc _
  split
  · split
    · exact okc _
    · rw [hfail]; exact Post.diag t'
  split
  · split
    · exact okc _
    · rw [hfail]; exact Post.diag t'
  split
  · exact okc _
  split
  · exact okc _
  split
  · have := hset items
    cases hm : env.mkSet items with
    | some v => exact okc v
    | none => rw [hm] at this; cases this
  split
  · exact okc _
  · exfalso
    simp only [ctxNames, List.map_cons, List.map_nil, List.mem_cons, List.not_mem_nil, or_false] at hctx
    rcases hctx with h | h | h | h | h | h | h <;> contradiction


/-- after a successful `parseToken`: the rest of the stream, and the new state is well formed -/
theorem after_token (s s' : PS) (t : Token) (tt : TT) (hne : tt ≠ .eof) (hw : WF env s) (h1 : stream s = t :: stream s')
    (h2 : s'.stack.length = s.stack.length - 1) (h3 : t.tt = tt) (h4 : ∀ x ∈ s'.stack, x ∈ s.stack) :
    WF env s' ∧ (stream s).length = (stream s').length + 1 :=
  ⟨wf_after_token env s s' t hw h1 h2 (ne_eof_of_tt h3 hne) h4, stream_len_cons h1⟩

theorem fail_post {α : Type} (d : Nat) (s : PS) (tok : Option Token) (ht : TokOk env tok) : Post env d s (fail env (α := α) tok) := by
  obtain ⟨t, h⟩ := fail_diag env (α := α) tok ht
  rw [h]; exact Post.diag t

theorem parseCollection_good (hcap : 3 < env.stackSize) (hset : ∀ items, (env.mkSet items).isSome) (f : Nat) (ih : IH env f)
    (s : PS) (hw : WF env s) (hf : Fuel 1 (f + 1) s) : Post env 1 s (parseCollection env (f + 1) s) := by
  simp only [parseCollection]
  have hq := ih.sequence s hw (by unfold Fuel at hf ⊢; omega)
  generalize parseSequence env f s = r at hq ⊢
  cases hq with
  | diag t => exact Post.diag t
  | no tok s' hw' hs hk ht => exact Post.no tok s' hw' hs hk ht
  | ok items tok0 s1 hw1 hpre1 ht1 =>
    simp only
    have hp := parseToken_spec env hcap TT.delimiter (some "(") s1 hw1
    generalize parseToken env TT.delimiter (some "(") s1 = r1 at hp ⊢
    cases hp with
    | diag t => exact Post.diag t
    | no t s' _ _ _ h5 => exact fail_post env 1 s _ h5
    | ok t s2 h1 h2 h3 h4 h5 _ =>
      simp only
      obtain ⟨hw2, _⟩ := after_token env s1 s2 t _ (by decide) hw1 h1 h2 h3 h4
      have hp2 := parseToken_spec env hcap TT.type none s2 hw2
      generalize parseToken env TT.type none s2 = r2 at hp2 ⊢
      cases hp2 with
      | diag t => exact Post.diag t
      | no t s' _ _ _ h5 => exact fail_post env 1 s _ h5
      | ok t2 s3 g1 g2 g3 g4 g5 _ =>
        simp only
        obtain ⟨hw3, _⟩ := after_token env s2 s3 t2 _ (by decide) hw2 g1 g2 g3 g4
        have hctx : t2.value ∈ ctxNames := hw2.types t2 (by rw [g1]; simp) g3
        have hp3 := parseToken_spec env hcap TT.delimiter (some ")") s3 hw3
        generalize parseToken env TT.delimiter (some ")") s3 = r3 at hp3 ⊢
        cases hp3 with
        | diag t => exact Post.diag t
        | no t s' _ _ _ h5 => exact fail_post env 1 s _ h5
        | ok t3 s4 k1 k2 k3 k4 k5 _ =>
          simp only
          obtain ⟨hw4, _⟩ := after_token env s3 s4 t3 _ (by decide) hw3 k1 k2 k3 k4
          apply mkCollection_good env hset _ _ _ s s4 hw4 hctx k5
          obtain ⟨pre, hpre⟩ := hpre1
          exact ⟨pre ++ [t, t2, t3], by rw [hpre, h1, g1, k1]; simp⟩

theorem parseSequence_good (hcap : 3 < env.stackSize) (f : Nat) (ih : IH env f)
    (s : PS) (hw : WF env s) (hf : Fuel 0 (f + 1) s) : Post env 1 s (parseSequence env (f + 1) s) := by
  simp only [parseSequence]
  have hp := parseToken_spec env hcap TT.delimiter (some "[") s hw
  generalize parseToken env TT.delimiter (some "[") s = r at hp ⊢
  cases hp with
  | diag t => exact Post.diag t
  | no t s' h1 h2 h3 h5 => exact Post.no _ s' h3 h1 (by omega) h5
  | ok t s1 h1 h2 h3 h4 h5 _ =>
    simp only
    obtain ⟨hw1, hlen⟩ := after_token env s s1 t _ (by decide) hw h1 h2 h3 h4
    have hq := ih.items s1 hw1 (by unfold Fuel at hf ⊢; omega)
    generalize parseItems env f s1 = r1 at hq ⊢
    cases hq with
    | diag t => exact Post.diag t
    | no tok s' _ _ _ ht => exact fail_post env 1 s _ ht
    | ok items tok0 s2 hw2 hpre2 ht2 =>
      simp only
      have hp2 := parseToken_spec env hcap TT.delimiter (some "]") s2 hw2
      generalize parseToken env TT.delimiter (some "]") s2 = r2 at hp2 ⊢
      cases hp2 with
      | diag t => exact Post.diag t
      | no t s' _ _ _ h5 => exact fail_post env 1 s _ h5
      | ok t2 s3 g1 g2 g3 g4 g5 _ =>
        simp only
        obtain ⟨hw3, _⟩ := after_token env s2 s3 t2 _ (by decide) hw2 g1 g2 g3 g4
        obtain ⟨pre, hpre⟩ := hpre2
        exact Post.ok _ _ s3 hw3 ⟨t :: pre ++ [t2], by rw [h1, hpre, g1]; simp⟩ g5

theorem parseItems_good (f : Nat) (ih : IH env f)
    (s : PS) (hw : WF env s) (hf : Fuel 5 (f + 1) s) : Post env 3 s (parseItems env (f + 1) s) := by
  simp only [parseItems]
  have hq := ih.assocs s hw (by unfold Fuel at hf ⊢; omega)
  generalize parseAssociations env f s = r at hq ⊢
  cases hq with
  | diag t => exact Post.diag t
  | ok items tok s' hw' hpre ht => exact Post.ok _ _ s' hw' hpre ht
  | no tok s' hw' hs hk ht =>
    simp only
    have hv := ih.values s' hw' (by unfold Fuel at hf ⊢; rw [hs]; omega)
    generalize parseValues env f s' = r1 at hv ⊢
    cases hv with
    | diag t => exact Post.diag t
    | ok items tok2 s'' hw'' hpre ht2 => exact Post.ok _ _ s'' hw'' (by rw [← hs]; exact hpre) ht2
    | no tok2 s'' hw'' hs2 hk2 ht2 => exact Post.no _ s'' hw'' (by rw [hs2, hs]) (by omega) ht2


theorem parseAssociations_good (hcap : 3 < env.stackSize) (f : Nat) (ih : IH env f)
    (s : PS) (hw : WF env s) (hf : Fuel 2 (f + 1) s) : Post env 3 s (parseAssociations env (f + 1) s) := by
  simp only [parseAssociations]
  have hp := parseToken_spec env hcap TT.delimiter (some ":") s hw
  generalize parseToken env TT.delimiter (some ":") s = r at hp ⊢
  cases hp with
  | diag t => exact Post.diag t
  | ok t s1 h1 h2 h3 h4 h5 _ =>
    simp only
    obtain ⟨hw1, _⟩ := after_token env s s1 t _ (by decide) hw h1 h2 h3 h4
    exact Post.ok _ _ s1 hw1 ⟨[t], by simp [h1]⟩ h5
  | no t s1 h1 h2 h3 h5 =>
    simp only
    have hq := ih.inlineAssocs s1 h3 (by unfold Fuel at hf ⊢; rw [h1]; omega)
    generalize parseInlineAssociations env f s1 = r1 at hq ⊢
    cases hq with
    | diag t => exact Post.diag t
    | ok items tok s' hw' hpre ht => exact Post.ok _ _ s' hw' (by rw [← h1]; exact hpre) ht
    | no tok s2 hw2 hs2 hk2 ht2 =>
      simp only
      have hm := ih.multiAssocs s2 hw2 (by unfold Fuel at hf ⊢; rw [hs2, h1]; omega)
      exact Post.of_same env (by rw [hs2, h1]) (by omega) (Nat.le_refl 3) hm

theorem parseAssociation_good (hcap : 3 < env.stackSize) (f : Nat) (ih : IH env f)
    (s : PS) (hw : WF env s) (hf : Fuel 0 (f + 1) s) : Post env 2 s (parseAssociation env (f + 1) s) := by
  simp only [parseAssociation]
  have hp := parseIntrinsic_spec env hcap s hw
  generalize parseIntrinsic env s = r at hp ⊢
  cases hp with
  | diag t => exact Post.diag t
  | no tok s' h1 h2 h3 h5 => exact Post.no tok s' h3 h1 (by omega) h5
  | ok key t s1 h1 h2 hw1 h5 hne =>
    simp only
    have hp2 := parseToken_spec env hcap TT.delimiter (some ":") s1 hw1
    generalize parseToken env TT.delimiter (some ":") s1 = r1 at hp2 ⊢
    cases hp2 with
    | diag t => exact Post.diag t
    | no t2 s2 g1 g2 g3 g5 =>
      -- not a key after all: the literal goes back in front of the stream
      simp only
      have hk2 : s2.stack.length ≤ 2 := by have := hw.stk; omega
      rw [putBack_ok env hcap t s2 _ (by omega)]
      refine Post.no _ _ ?_ ?_ ?_ h5
      · exact wf_push env s t (stream s1) hw h1 s2 g1 hne g3.noErr hk2
      · rw [h1, ← g1]; simp [stream]
      · simp only [List.length_cons]; omega
    | ok t2 s2 g1 g2 g3 g4 g5 _ =>
      simp only
      obtain ⟨hw2, _⟩ := after_token env s1 s2 t2 _ (by decide) hw1 g1 g2 g3 g4
      have hl1 := stream_len_cons h1
      have hl2 := stream_len_cons g1
      have hv := ih.value s2 hw2 (by unfold Fuel at hf ⊢; omega)
      generalize parseValue env f s2 = r2 at hv ⊢
      cases hv with
      | diag t => exact Post.diag t
      | no tok' s' _ _ _ ht => exact fail_post env 2 s _ ht
      | ok v tok' s3 hw3 hpre3 ht3 =>
        obtain ⟨pre, hpre⟩ := hpre3
        exact Post.ok _ _ s3 hw3 ⟨t :: t2 :: pre, by rw [h1, g1, hpre]; simp⟩ ht3


theorem fail_notNo {α : Type} (tok : Option Token) (ht : TokOk env tok) : NotNo (fail env (α := α) tok) := by
  obtain ⟨t, h⟩ := fail_diag env (α := α) tok ht
  rw [h]; trivial

theorem inlineAssocLoop_good (hcap : 3 < env.stackSize) (f : Nat) (ih : IH env f) (acc : List (Val × Val)) (a : Val)
    (s : PS) (hw : WF env s) (hf : Fuel 0 (f + 1) s) :
    Post env 0 s (inlineAssocLoop env (f + 1) acc a s) ∧ NotNo (inlineAssocLoop env (f + 1) acc a s) := by
  simp only [inlineAssocLoop]
  have hp := parseToken_spec env hcap TT.delimiter (some ",") s hw
  generalize parseToken env TT.delimiter (some ",") s = r at hp ⊢
  cases hp with
  | diag t => exact ⟨Post.diag t, trivial⟩
  | no t s1 h1 h2 h3 h5 => exact ⟨Post.ok _ _ s1 h3 ⟨[], by simp [h1]⟩ h5, trivial⟩
  | ok t s1 h1 h2 h3 h4 h5 _ =>
    simp only
    obtain ⟨hw1, hlen⟩ := after_token env s s1 t _ (by decide) hw h1 h2 h3 h4
    have hq := ih.assoc s1 hw1 (by unfold Fuel at hf ⊢; omega)
    generalize parseAssociation env f s1 = r1 at hq ⊢
    cases hq with
    | diag t => exact ⟨Post.diag t, trivial⟩
    | no tok s' _ _ _ ht => exact ⟨fail_post env 0 s _ ht, fail_notNo env _ ht⟩
    | ok a' tok s2 hw2 hpre2 ht2 =>
      simp only
      have hl := stream_len_of_pre hpre2
      have hr := ih.inlineAssocLoop (match a with | .assoc k v => Val.catalogSet acc k v | _ => acc) a' s2 hw2
        (by unfold Fuel at hf ⊢; omega)
      generalize inlineAssocLoop env f _ a' s2 = r2 at hr ⊢
      obtain ⟨pre, hpre⟩ := hpre2
      obtain ⟨hr1, hr2⟩ := hr
      cases hr1 with
      | diag t => exact ⟨Post.diag t, trivial⟩
      | ok x tok' s3 hw3 hpre3 ht3 =>
        obtain ⟨pre3, hpre3⟩ := hpre3
        exact ⟨Post.ok _ _ s3 hw3 ⟨t :: pre ++ pre3, by rw [h1, hpre, hpre3]; simp⟩ ht3, trivial⟩
      | no tok' s3 hw3 hs3 hk3 ht3 => exact hr2.elim

theorem parseInlineAssociations_good (f : Nat) (ih : IH env f)
    (s : PS) (hw : WF env s) (hf : Fuel 1 (f + 1) s) : Post env 2 s (parseInlineAssociations env (f + 1) s) := by
  simp only [parseInlineAssociations]
  have hq := ih.assoc s hw (by unfold Fuel at hf ⊢; omega)
  generalize parseAssociation env f s = r at hq ⊢
  cases hq with
  | diag t => exact Post.diag t
  | no tok s' hw' hs hk ht => exact Post.no tok s' hw' hs hk ht
  | ok a tok s1 hw1 hpre1 ht1 =>
    simp only
    have hl := stream_len_of_pre hpre1
    have hr := (ih.inlineAssocLoop [] a s1 hw1 (by unfold Fuel at hf ⊢; omega))
    generalize inlineAssocLoop env f [] a s1 = r1 at hr ⊢
    obtain ⟨pre, hpre⟩ := hpre1
    obtain ⟨hr1, hr2⟩ := hr
    cases hr1 with
    | diag t => exact Post.diag t
    | ok x tok' s3 hw3 hpre3 ht3 =>
      obtain ⟨pre3, hpre3⟩ := hpre3
      exact Post.ok _ _ s3 hw3 ⟨pre ++ pre3, by rw [hpre, hpre3]; simp⟩ ht3
    | no tok' s3 hw3 hs3 hk3 ht3 => exact hr2.elim

theorem multiAssocLoop_good (hcap : 3 < env.stackSize) (f : Nat) (ih : IH env f) (acc : List (Val × Val)) (a : Val)
    (tok0 : Option Token) (s : PS) (hw : WF env s) (hf : Fuel 0 (f + 1) s) :
    Post env 0 s (multiAssocLoop env (f + 1) acc a tok0 s) ∧ NotNo (multiAssocLoop env (f + 1) acc a tok0 s) := by
  simp only [multiAssocLoop]
  have hp := parseToken_spec env hcap TT.eol none s hw
  generalize parseToken env TT.eol none s = r at hp ⊢
  cases hp with
  | diag t => exact ⟨Post.diag t, trivial⟩
  | no t s1 h1 h2 h3 h5 => exact ⟨fail_post env 0 s _ h5, fail_notNo env _ h5⟩
  | ok t s1 h1 h2 h3 h4 h5 _ =>
    simp only
    obtain ⟨hw1, hlen⟩ := after_token env s s1 t _ (by decide) hw h1 h2 h3 h4
    have hq := ih.assoc s1 hw1 (by unfold Fuel at hf ⊢; omega)
    generalize parseAssociation env f s1 = r1 at hq ⊢
    cases hq with
    | diag t => exact ⟨Post.diag t, trivial⟩
    | no tok s2 hw2 hs2 _ ht => exact ⟨Post.ok _ _ s2 hw2 ⟨[t], by rw [h1, hs2]; simp⟩ ht, trivial⟩
    | ok a' tok s2 hw2 hpre2 ht2 =>
      simp only
      have hl := stream_len_of_pre hpre2
      have hr := ih.multiAssocLoop (match a with | .assoc k v => Val.catalogSet acc k v | _ => acc) a' tok s2 hw2
        (by unfold Fuel at hf ⊢; omega)
      generalize multiAssocLoop env f _ a' tok s2 = r2 at hr ⊢
      obtain ⟨pre, hpre⟩ := hpre2
      obtain ⟨hr1, hr2⟩ := hr
      cases hr1 with
      | diag t => exact ⟨Post.diag t, trivial⟩
      | ok x tok' s3 hw3 hpre3 ht3 =>
        obtain ⟨pre3, hpre3⟩ := hpre3
        exact ⟨Post.ok _ _ s3 hw3 ⟨t :: pre ++ pre3, by rw [h1, hpre, hpre3]; simp⟩ ht3, trivial⟩
      | no tok' s3 hw3 hs3 hk3 ht3 => exact hr2.elim

theorem parseMultilineAssociations_good (hcap : 3 < env.stackSize) (f : Nat) (ih : IH env f)
    (s : PS) (hw : WF env s) (hf : Fuel 1 (f + 1) s) : Post env 3 s (parseMultilineAssociations env (f + 1) s) := by
  simp only [parseMultilineAssociations]
  have hp := parseToken_spec env hcap TT.eol none s hw
  generalize parseToken env TT.eol none s = r at hp ⊢
  cases hp with
  | diag t => exact Post.diag t
  | no t s1 h1 h2 h3 h5 => exact Post.no _ s1 h3 h1 (by omega) h5
  | ok t s1 h1 h2 h3 h4 h5 hne =>
    simp only
    obtain ⟨hw1, hlen⟩ := after_token env s s1 t _ (by decide) hw h1 h2 h3 h4
    have hq := ih.assoc s1 hw1 (by unfold Fuel at hf ⊢; omega)
    generalize parseAssociation env f s1 = r1 at hq ⊢
    cases hq with
    | diag t => exact Post.diag t
    | no tok s2 hw2 hs2 hk2 ht =>
      -- a sequence of values after all: the EOL goes back in front of the stream
      simp only
      have hk : s2.stack.length ≤ 2 := by have := hw.stk; omega
      rw [putBack_ok env hcap t s2 _ (by omega)]
      refine Post.no _ _ ?_ ?_ ?_ ht
      · exact wf_push env s t (stream s1) hw h1 s2 hs2 hne hw2.noErr hk
      · rw [h1, ← hs2]; simp [stream]
      · simp only [List.length_cons]; omega
    | ok a tok s2 hw2 hpre2 ht2 =>
      simp only
      have hl := stream_len_of_pre hpre2
      have hr := ih.multiAssocLoop [] a tok s2 hw2 (by unfold Fuel at hf ⊢; omega)
      generalize multiAssocLoop env f [] a tok s2 = r2 at hr ⊢
      obtain ⟨pre, hpre⟩ := hpre2
      obtain ⟨hr1, hr2⟩ := hr
      cases hr1 with
      | diag t => exact Post.diag t
      | ok x tok' s3 hw3 hpre3 ht3 =>
        obtain ⟨pre3, hpre3⟩ := hpre3
        exact Post.ok _ _ s3 hw3 ⟨t :: pre ++ pre3, by rw [h1, hpre, hpre3]; simp⟩ ht3
      | no tok' s3 hw3 hs3 hk3 ht3 => exact hr2.elim


theorem parseValues_good (hcap : 3 < env.stackSize) (f : Nat) (ih : IH env f)
    (s : PS) (hw : WF env s) (hf : Fuel 4 (f + 1) s) : Post env 1 s (parseValues env (f + 1) s) := by
  simp only [parseValues]
  have hp := parseToken_spec env hcap TT.delimiter (some "]") s hw
  generalize parseToken env TT.delimiter (some "]") s = r at hp ⊢
  cases hp with
  | diag t => exact Post.diag t
  | ok t s1 h1 h2 h3 h4 h5 hne =>
    -- an empty sequence: the bracket is put back for parseSequence
    simp only
    have hk : s1.stack.length ≤ 2 := by have := hw.stk; omega
    rw [putBack_ok env hcap t s1 _ (by omega)]
    refine Post.ok _ _ _ ?_ ⟨[], ?_⟩ h5
    · exact wf_push env s t (stream s1) hw h1 s1 rfl hne (fun x hx => hw.noErr x (h4 x hx)) hk
    · rw [h1]; simp [stream]
  | no t s1 h1 h2 h3 h5 =>
    simp only
    have hq := ih.inlineValues s1 h3 (by unfold Fuel at hf ⊢; rw [h1]; omega)
    generalize parseInlineValues env f s1 = r1 at hq ⊢
    cases hq with
    | diag t => exact Post.diag t
    | ok items tok s' hw' hpre ht => exact Post.ok _ _ s' hw' (by rw [← h1]; exact hpre) ht
    | no tok s2 hw2 hs2 hk2 ht2 =>
      simp only
      have hm := ih.multiValues s2 hw2 (by unfold Fuel at hf ⊢; rw [hs2, h1]; omega)
      exact Post.of_same env (by rw [hs2, h1]) (by omega) (Nat.le_refl 1) hm

theorem inlineValuesLoop_good (hcap : 3 < env.stackSize) (f : Nat) (ih : IH env f) (acc : List Val) (v : Val)
    (s : PS) (hw : WF env s) (hf : Fuel 0 (f + 1) s) :
    Post env 0 s (inlineValuesLoop env (f + 1) acc v s) ∧ NotNo (inlineValuesLoop env (f + 1) acc v s) := by
  simp only [inlineValuesLoop]
  have hp := parseToken_spec env hcap TT.delimiter (some ",") s hw
  generalize parseToken env TT.delimiter (some ",") s = r at hp ⊢
  cases hp with
  | diag t => exact ⟨Post.diag t, trivial⟩
  | no t s1 h1 h2 h3 h5 => exact ⟨Post.ok _ _ s1 h3 ⟨[], by simp [h1]⟩ h5, trivial⟩
  | ok t s1 h1 h2 h3 h4 h5 _ =>
    simp only
    obtain ⟨hw1, hlen⟩ := after_token env s s1 t _ (by decide) hw h1 h2 h3 h4
    have hq := ih.value s1 hw1 (by unfold Fuel at hf ⊢; omega)
    generalize parseValue env f s1 = r1 at hq ⊢
    cases hq with
    | diag t => exact ⟨Post.diag t, trivial⟩
    | no tok s' _ _ _ ht => exact ⟨fail_post env 0 s _ ht, fail_notNo env _ ht⟩
    | ok v' tok s2 hw2 hpre2 ht2 =>
      simp only
      have hl := stream_len_of_pre hpre2
      have hr := ih.inlineValuesLoop (acc ++ [v]) v' s2 hw2 (by unfold Fuel at hf ⊢; omega)
      generalize inlineValuesLoop env f (acc ++ [v]) v' s2 = r2 at hr ⊢
      obtain ⟨pre, hpre⟩ := hpre2
      obtain ⟨hr1, hr2⟩ := hr
      cases hr1 with
      | diag t => exact ⟨Post.diag t, trivial⟩
      | ok x tok' s3 hw3 hpre3 ht3 =>
        obtain ⟨pre3, hpre3⟩ := hpre3
        exact ⟨Post.ok _ _ s3 hw3 ⟨t :: pre ++ pre3, by rw [h1, hpre, hpre3]; simp⟩ ht3, trivial⟩
      | no tok' s3 hw3 hs3 hk3 ht3 => exact hr2.elim

theorem parseInlineValues_good (f : Nat) (ih : IH env f)
    (s : PS) (hw : WF env s) (hf : Fuel 3 (f + 1) s) : Post env 1 s (parseInlineValues env (f + 1) s) := by
  simp only [parseInlineValues]
  have hq := ih.value s hw (by unfold Fuel at hf ⊢; omega)
  generalize parseValue env f s = r at hq ⊢
  cases hq with
  | diag t => exact Post.diag t
  | no tok s' hw' hs hk ht => exact Post.no tok s' hw' hs hk ht
  | ok v tok s1 hw1 hpre1 ht1 =>
    simp only
    have hl := stream_len_of_pre hpre1
    have hr := ih.inlineValuesLoop [] v s1 hw1 (by unfold Fuel at hf ⊢; omega)
    generalize inlineValuesLoop env f [] v s1 = r1 at hr ⊢
    obtain ⟨pre, hpre⟩ := hpre1
    obtain ⟨hr1, hr2⟩ := hr
    cases hr1 with
    | diag t => exact Post.diag t
    | ok x tok' s3 hw3 hpre3 ht3 =>
      obtain ⟨pre3, hpre3⟩ := hpre3
      exact Post.ok _ _ s3 hw3 ⟨pre ++ pre3, by rw [hpre, hpre3]; simp⟩ ht3
    | no tok' s3 hw3 hs3 hk3 ht3 => exact hr2.elim

theorem multiValuesLoop_good (hcap : 3 < env.stackSize) (f : Nat) (ih : IH env f) (acc : List Val) (v : Val)
    (s : PS) (hw : WF env s) (hf : Fuel 0 (f + 1) s) :
    Post env 0 s (multiValuesLoop env (f + 1) acc v s) ∧ NotNo (multiValuesLoop env (f + 1) acc v s) := by
  simp only [multiValuesLoop]
  have hp := parseToken_spec env hcap TT.eol none s hw
  generalize parseToken env TT.eol none s = r at hp ⊢
  cases hp with
  | diag t => exact ⟨Post.diag t, trivial⟩
  | no t s1 h1 h2 h3 h5 => exact ⟨fail_post env 0 s _ h5, fail_notNo env _ h5⟩
  | ok t s1 h1 h2 h3 h4 h5 _ =>
    simp only
    obtain ⟨hw1, hlen⟩ := after_token env s s1 t _ (by decide) hw h1 h2 h3 h4
    have hq := ih.value s1 hw1 (by unfold Fuel at hf ⊢; omega)
    generalize parseValue env f s1 = r1 at hq ⊢
    cases hq with
    | diag t => exact ⟨Post.diag t, trivial⟩
    | no tok s2 hw2 hs2 _ ht => exact ⟨Post.ok _ _ s2 hw2 ⟨[t], by rw [h1, hs2]; simp⟩ ht, trivial⟩
    | ok v' tok s2 hw2 hpre2 ht2 =>
      simp only
      have hl := stream_len_of_pre hpre2
      have hr := ih.multiValuesLoop (acc ++ [v]) v' s2 hw2 (by unfold Fuel at hf ⊢; omega)
      generalize multiValuesLoop env f (acc ++ [v]) v' s2 = r2 at hr ⊢
      obtain ⟨pre, hpre⟩ := hpre2
      obtain ⟨hr1, hr2⟩ := hr
      cases hr1 with
      | diag t => exact ⟨Post.diag t, trivial⟩
      | ok x tok' s3 hw3 hpre3 ht3 =>
        obtain ⟨pre3, hpre3⟩ := hpre3
        exact ⟨Post.ok _ _ s3 hw3 ⟨t :: pre ++ pre3, by rw [h1, hpre, hpre3]; simp⟩ ht3, trivial⟩
      | no tok' s3 hw3 hs3 hk3 ht3 => exact hr2.elim

theorem parseMultilineValues_good (hcap : 3 < env.stackSize) (f : Nat) (ih : IH env f)
    (s : PS) (hw : WF env s) (hf : Fuel 1 (f + 1) s) : Post env 1 s (parseMultilineValues env (f + 1) s) := by
  simp only [parseMultilineValues]
  have hp := parseToken_spec env hcap TT.eol none s hw
  generalize parseToken env TT.eol none s = r at hp ⊢
  cases hp with
  | diag t => exact Post.diag t
  | no t s1 h1 h2 h3 h5 => exact Post.no _ s1 h3 h1 (by omega) h5
  | ok t s1 h1 h2 h3 h4 h5 _ =>
    simp only
    obtain ⟨hw1, hlen⟩ := after_token env s s1 t _ (by decide) hw h1 h2 h3 h4
    have hq := ih.value s1 hw1 (by unfold Fuel at hf ⊢; omega)
    generalize parseValue env f s1 = r1 at hq ⊢
    cases hq with
    | diag t => exact Post.diag t
    | no tok s' _ _ _ ht => exact fail_post env 1 s _ ht
    | ok v tok s2 hw2 hpre2 ht2 =>
      simp only
      have hl := stream_len_of_pre hpre2
      have hr := ih.multiValuesLoop [] v s2 hw2 (by unfold Fuel at hf ⊢; omega)
      generalize multiValuesLoop env f [] v s2 = r2 at hr ⊢
      obtain ⟨pre, hpre⟩ := hpre2
      obtain ⟨hr1, hr2⟩ := hr
      cases hr1 with
      | diag t => exact Post.diag t
      | ok x tok' s3 hw3 hpre3 ht3 =>
        obtain ⟨pre3, hpre3⟩ := hpre3
        exact Post.ok _ _ s3 hw3 ⟨t :: pre ++ pre3, by rw [h1, hpre, hpre3]; simp⟩ ht3
      | no tok' s3 hw3 hs3 hk3 ht3 => exact hr2.elim

/-- **every parse method behaves at every fuel** -/
theorem ih_all (hcap : 3 < env.stackSize) (hset : ∀ items, (env.mkSet items).isSome) : ∀ f, IH env f
  | 0 => ih_zero env
  | f + 1 =>
    have ih := ih_all hcap hset f
    { value := parseValue_good env hcap f ih
      collection := parseCollection_good env hcap hset f ih
      sequence := parseSequence_good env hcap f ih
      items := parseItems_good env f ih
      assocs := parseAssociations_good env hcap f ih
      assoc := parseAssociation_good env hcap f ih
      inlineAssocs := parseInlineAssociations_good env f ih
      inlineAssocLoop := inlineAssocLoop_good env hcap f ih
      multiAssocs := parseMultilineAssociations_good env hcap f ih
      multiAssocLoop := multiAssocLoop_good env hcap f ih
      values := parseValues_good env hcap f ih
      inlineValues := parseInlineValues_good env f ih
      inlineValuesLoop := inlineValuesLoop_good env hcap f ih
      multiValues := parseMultilineValues_good env hcap f ih
      multiValuesLoop := multiValuesLoop_good env hcap f ih }

end Cdcn
end CM
