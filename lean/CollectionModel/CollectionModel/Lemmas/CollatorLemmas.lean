/-
  Soundness of the collator model with respect to the canonical ordered domain:
  whenever `rank` returns on values of the universe `U` (no Go maps, no complex
  numbers) it returns `cmpT (enc a) (enc b)`, and `cmp` returns whether that is Equal.
-/
import CollectionModel.Model.Collator
import CollectionModel.Lemmas.OrderT
namespace CM
namespace Coll

def ckTag : CK → Nat
  | .catalog => 6 | .list => 7 | .queue => 9 | .set => 10 | .stack => 11

mutual
/-- embedding of values into the canonical ordered domain (tag = type-name position + 1, undef = 0) -/
def enc : Val → T
  | .undef => .leaf 0 []
  | .bool b => .leaf 2 [if b then 1 else 0]
  | .byte n => .leaf 3 [(n : Int)]
  | .uns n => .leaf 18 [(n : Int)]
  | .int i => .leaf 14 [i]
  | .rune i => .leaf 16 [i]
  | .flt .nan => .leaf 13 [0]
  | .flt (.num k) => .leaf 13 [1, k]
  | .cpx _ => .leaf 12 []
  | .str s => .leaf 17 (s.map (fun (n : Nat) => (n : Int)))
  | .arr cls true _ => .leaf (if cls then 4 else 1) []
  | .arr cls false xs => .node (if cls then 4 else 1) (encList xs)
  | .gomap cls _ _ => .leaf (if cls then 8 else 15) []
  | .coll k xs => .node (ckTag k) (encList xs)
  | .assoc k v => .node 5 [enc k, enc v]
def encList : List Val → List T
  | [] => []
  | x :: xs => enc x :: encList xs
end

mutual
/-- the universe of the proved theorems: no Go map and no complex number anywhere inside -/
def inU : Val → Bool
  | .cpx _ => false
  | .gomap _ _ _ => false
  | .arr _ _ xs => inUList xs
  | .coll _ xs => inUList xs
  | .assoc k v => inU k && inU v
  | _ => true
def inUList : List Val → Bool
  | [] => true
  | x :: xs => inU x && inUList xs
end

def _root_.CM.T.tag : T → Nat
  | .leaf t _ => t
  | .node t _ => t

def isUndef : Val → Bool
  | .undef => true
  | _ => false

theorem enc_tag (a : Val) (h : isUndef a = false) : (enc a).tag = a.tcode + 1 := by
  cases a with
  | undef => simp [isUndef] at h
  | flt f => cases f <;> simp [enc, T.tag, Val.tcode]
  | arr cls n xs => cases cls <;> cases n <;> simp [enc, T.tag, Val.tcode]
  | gomap cls n es => cases cls <;> simp [enc, T.tag, Val.tcode]
  | coll k xs => cases k <;> simp [enc, T.tag, Val.tcode, ckTag]
  | _ => simp [enc, T.tag, Val.tcode]

theorem cmpT_of_tag_ne (x y : T) (h : x.tag ≠ y.tag) : cmpT x y = rankNat x.tag y.tag := by
  have hne : rankNat x.tag y.tag ≠ .eq := by
    unfold rankNat; by_cases h1 : x.tag < y.tag <;> by_cases h2 : y.tag < x.tag <;> simp [h1, h2]; omega
  cases x <;> cases y <;> simp only [cmpT, T.tag] at * <;>
    (cases hr : rankNat _ _ <;> simp_all)

theorem rankNat_succ (a b : Nat) : rankNat (a + 1) (b + 1) = rankNat a b := by
  unfold rankNat
  by_cases h1 : a < b <;> by_cases h2 : b < a <;> simp [h1, h2] <;> omega

theorem rankNat_cast (a b : Nat) : rankInt (a : Int) (b : Int) = rankNat a b := by
  unfold rankInt rankNat
  by_cases h1 : a < b <;> by_cases h2 : b < a <;> simp [h1, h2] <;> omega

theorem rankBytes_lex : ∀ a b : List Nat, rankBytes a b = lexRank rankInt (a.map (fun (n : Nat) => (n : Int))) (b.map (fun (n : Nat) => (n : Int)))
  | [], [] => rfl
  | [], _ :: _ => rfl
  | _ :: _, [] => rfl
  | x :: xs, y :: ys => by
    simp only [rankBytes, List.map_cons, lexRank, rankNat_cast, rankBytes_lex xs ys]
    cases rankNat x y <;> rfl

end Coll
end CM

namespace CM
namespace Coll

theorem encList_eq_map (xs : List Val) : encList xs = xs.map enc := by
  induction xs with
  | nil => rfl
  | cons x xs ih => simp [encList, ih]

theorem flipOut_ok {o : Out Rank} {r : Rank} (h : flipOut o = .ok r) : o = .ok r.flip := by
  cases o <;> simp [flipOut] at h
  subst h; simp

theorem rankBool_lex (x y : Bool) :
    rankBool x y = lexRank rankInt [if x then 1 else 0] [if y then 1 else 0] := by
  cases x <;> cases y <;> simp [rankBool, lexRank, rankInt]

theorem rank_undef_left (max f d : Nat) (b : Val) (hb : isUndef b = false) :
    rank max (f+1) d .undef b = .ok .lt := by
  cases b <;> simp [isUndef] at hb <;> simp [rank]

theorem rank_undef_right (max f d : Nat) (a : Val) (ha : isUndef a = false) :
    rank max (f+1) d a .undef = .ok .gt := by
  cases a <;> simp [isUndef] at ha <;> simp [rank]

theorem cmpT_undef_left (b : Val) (hb : isUndef b = false) : cmpT (enc .undef) (enc b) = .lt := by
  have e2 := enc_tag b hb
  have hne : (enc Val.undef).tag ≠ (enc b).tag := by rw [e2]; simp [enc, T.tag]
  rw [cmpT_of_tag_ne _ _ hne, e2]; simp [enc, T.tag, rankNat]

theorem cmpT_undef_right (a : Val) (ha : isUndef a = false) : cmpT (enc a) (enc .undef) = .gt := by
  rw [cmpT_mirror (enc .undef) (enc a), cmpT_undef_left a ha]; rfl

theorem lexRank_single {α : Type} (c : α → α → Rank) (a b : α) : lexRank c [a] [b] = c a b := by
  simp only [lexRank]; cases c a b <;> rfl

mutual
theorem rank_sound (max : Nat) : ∀ (f d : Nat) (a b : Val) (r : Rank), inU a = true → inU b = true →
    rank max f d a b = .ok r → r = cmpT (enc a) (enc b)
  | 0, _, _, _, _, _, _, h => by simp [rank] at h
  | f+1, d, a, b, r, ha, hb, h => by
    cases hua : isUndef a with
    | true =>
      cases a <;> simp [isUndef] at hua
      cases hub : isUndef b with
      | true =>
        cases b <;> simp [isUndef] at hub
        simp [rank] at h; subst h; simp [enc, cmpT, rankNat, lexRank]
      | false =>
        rw [rank_undef_left max f d b hub] at h
        cases h; exact (cmpT_undef_left b hub).symm
    | false =>
      cases hub : isUndef b with
      | true =>
        cases b <;> simp [isUndef] at hub
        rw [rank_undef_right max f d a hua] at h
        cases h; exact (cmpT_undef_right a hua).symm
      | false =>
        by_cases ht : a.tcode = b.tcode
        · cases a with
          | undef => simp [isUndef] at hua
          | cpx z => simp [inU] at ha
          | gomap c n e => simp [inU] at ha
          | bool x =>
            cases b <;> simp [Val.tcode] at ht
            case bool y => simp [rank, Val.tcode] at h; subst h; simp only [enc, cmpT, rankNat_lawful.refl, rankBool_lex]
            case arr c n xs => cases c <;> simp [Val.tcode] at ht
            case gomap c n e => simp [inU] at hb
            case coll k xs => cases k <;> simp [Val.tcode] at ht
          | byte x =>
            cases b <;> simp [Val.tcode] at ht
            case byte y => simp [rank, Val.tcode] at h; subst h; simp only [enc, cmpT, rankNat_lawful.refl, lexRank_single, rankNat_cast]
            case arr c n xs => cases c <;> simp [Val.tcode] at ht
            case gomap c n e => simp [inU] at hb
            case coll k xs => cases k <;> simp [Val.tcode] at ht
          | uns x =>
            cases b <;> simp [Val.tcode] at ht
            case uns y => simp [rank, Val.tcode] at h; subst h; simp only [enc, cmpT, rankNat_lawful.refl, lexRank_single, rankNat_cast]
            case arr c n xs => cases c <;> simp [Val.tcode] at ht
            case gomap c n e => simp [inU] at hb
            case coll k xs => cases k <;> simp [Val.tcode] at ht
          | int x =>
            cases b <;> simp [Val.tcode] at ht
            case int y => simp [rank, Val.tcode] at h; subst h; simp only [enc, cmpT, rankNat_lawful.refl, lexRank_single]
            case arr c n xs => cases c <;> simp [Val.tcode] at ht
            case gomap c n e => simp [inU] at hb
            case coll k xs => cases k <;> simp [Val.tcode] at ht
          | rune x =>
            cases b <;> simp [Val.tcode] at ht
            case rune y => simp [rank, Val.tcode] at h; subst h; simp only [enc, cmpT, rankNat_lawful.refl, lexRank_single]
            case arr c n xs => cases c <;> simp [Val.tcode] at ht
            case gomap c n e => simp [inU] at hb
            case coll k xs => cases k <;> simp [Val.tcode] at ht
          | flt x =>
            cases b <;> simp [Val.tcode] at ht
            case flt y =>
              simp [rank, Val.tcode] at h; subst h
              cases x <;> cases y <;> simp [enc, cmpT, rankNat, lexRank, rankFl, rankInt]
              rename_i p q
              by_cases h1 : p < q <;> by_cases h2 : q < p <;> simp [h1, h2]
            case arr c n xs => cases c <;> simp [Val.tcode] at ht
            case gomap c n e => simp [inU] at hb
            case coll k xs => cases k <;> simp [Val.tcode] at ht
          | str x =>
            cases b <;> simp [Val.tcode] at ht
            case str y => simp [rank, Val.tcode] at h; subst h; simp only [enc, cmpT, rankNat_lawful.refl, rankBytes_lex]
            case arr c n xs => cases c <;> simp [Val.tcode] at ht
            case gomap c n e => simp [inU] at hb
            case coll k xs => cases k <;> simp [Val.tcode] at ht
          | assoc k1 v1 =>
            cases b <;> simp [Val.tcode] at ht
            case assoc k2 v2 =>
              simp only [inU, Bool.and_eq_true] at ha hb
              simp only [rank, Val.tcode, ne_eq, not_true_eq_false, if_false] at h
              simp only [enc, cmpT, rankNat_lawful.refl, cmpTs]
              cases hk : rank max f d k1 k2 with
              | ok rk =>
                have e := rank_sound max f d k1 k2 rk ha.1 hb.1 hk
                rw [hk] at h
                cases rk with
                | eq =>
                  simp only at h
                  have e2 := rank_sound max f d v1 v2 r ha.2 hb.2 h
                  rw [← e, ← e2]
                  cases r <;> rfl
                | lt => simp only at h; cases h; rw [← e]
                | gt => simp only at h; cases h; rw [← e]
              | depth => rw [hk] at h; cases h
              | hang => rw [hk] at h; cases h
            case arr c n xs => cases c <;> simp [Val.tcode] at ht
            case gomap c n e => simp [inU] at hb
            case coll k xs => cases k <;> simp [Val.tcode] at ht
          | coll k1 xs =>
            cases b with
            | coll k2 ys =>
              have hk : k1 = k2 := by cases k1 <;> cases k2 <;> simp [Val.tcode] at ht <;> rfl
              subst hk
              simp only [inU] at ha hb
              have h' : rankArr max f d xs ys = .ok r := by
                cases k1 <;> simpa [rank, Val.tcode] using h
              have := rankArr_sound max f d xs ys r ha hb h'
              simp [enc, cmpT, rankNat_lawful.refl, this]
            | gomap c n e => simp [inU] at hb
            | arr c n ys => cases c <;> cases k1 <;> simp [Val.tcode] at ht
            | undef => simp [isUndef] at hub
            | _ => cases k1 <;> simp [Val.tcode] at ht
          | arr c1 n1 xs =>
            cases b with
            | arr c2 n2 ys =>
              have hc : c1 = c2 := by cases c1 <;> cases c2 <;> simp [Val.tcode] at ht <;> rfl
              subst hc
              simp only [inU] at ha hb
              have hcode : (Val.arr c1 n1 xs).tcode = (Val.arr c1 n2 ys).tcode := by cases c1 <;> rfl
              simp only [rank, hcode, ne_eq, not_true_eq_false, if_false] at h
              cases n1 <;> cases n2 <;> simp only [if_true, if_false, Bool.false_eq_true] at h
              · have := rankArr_sound max f d xs ys r ha hb h
                simp [enc, cmpT, rankNat_lawful.refl, this]
              · cases h; simp [enc, cmpT, rankNat_lawful.refl]
              · cases h; simp [enc, cmpT, rankNat_lawful.refl]
              · cases h; simp [enc, cmpT, rankNat_lawful.refl, lexRank]
            | gomap c n e => simp [inU] at hb
            | coll k ys => cases c1 <;> cases k <;> simp [Val.tcode] at ht
            | undef => simp [isUndef] at hub
            | _ => cases c1 <;> simp [Val.tcode] at ht
        · have e1 := enc_tag a hua
          have e2 := enc_tag b hub
          have hne : (enc a).tag ≠ (enc b).tag := by rw [e1, e2]; omega
          rw [cmpT_of_tag_ne _ _ hne, e1, e2, rankNat_succ]
          cases a <;> cases b <;> simp [isUndef] at hua hub <;> simp [rank, ht] at h <;> exact h.symm
theorem rankArr_sound (max : Nat) : ∀ (f d : Nat) (xs ys : List Val) (r : Rank), inUList xs = true → inUList ys = true →
    rankArr max f d xs ys = .ok r → r = cmpTs (encList xs) (encList ys)
  | 0, _, _, _, _, _, _, h => by simp [rankArr] at h
  | f+1, d, xs, ys, r, ha, hb, h => by
    simp only [rankArr] at h
    split at h
    · cases h
    · split at h
      · have h2 := flipOut_ok h
        have := rankPrefix_sound max f d ys xs r.flip hb ha h2
        rw [cmpTs_eq_lex] at this ⊢
        rw [(lexRank_lawful cmpT_lawful).mirror (encList ys) (encList xs), ← this]
        simp
      · exact rankPrefix_sound max f d xs ys r ha hb h
theorem rankPrefix_sound (max : Nat) : ∀ (f d : Nat) (xs ys : List Val) (r : Rank), inUList xs = true → inUList ys = true →
    rankPrefix max f d xs ys = .ok r → r = cmpTs (encList xs) (encList ys)
  | 0, _, _, _, _, _, _, h => by simp [rankPrefix] at h
  | f+1, d, [], [], r, _, _, h => by simp [rankPrefix] at h; subst h; simp [encList, cmpTs]
  | f+1, d, [], _ :: _, r, _, _, h => by simp [rankPrefix] at h; subst h; simp [encList, cmpTs]
  | f+1, d, _ :: _, [], r, _, _, h => by simp [rankPrefix] at h; subst h; simp [encList, cmpTs]
  | f+1, d, x :: xs, y :: ys, r, ha, hb, h => by
    simp only [inUList, Bool.and_eq_true] at ha hb
    simp only [rankPrefix] at h
    simp only [encList, cmpTs]
    cases hk : rank max f (d+1) x y with
    | ok rk =>
      have e := rank_sound max f (d+1) x y rk ha.1 hb.1 hk
      rw [hk] at h
      cases rk with
      | eq =>
        simp only at h
        have e2 := rankPrefix_sound max f d xs ys r ha.2 hb.2 h
        rw [← e, ← e2]
      | lt => simp only at h; cases h; rw [← e]
      | gt => simp only at h; cases h; rw [← e]
    | depth => rw [hk] at h; cases h
    | hang => rw [hk] at h; cases h
end

end Coll
end CM

namespace CM
namespace Coll

theorem rankNat_eq_iff (x y : Nat) : (rankNat x y == .eq) = (x == y) := by
  by_cases h : x = y
  · subst h; simp [rankNat]
  · have : rankNat x y ≠ .eq := by
      unfold rankNat
      by_cases h1 : x < y
      · simp [h1]
      · have h2 : y < x := by omega
        simp [h1, h2]
    have hf : (x == y) = false := by simpa using h
    rw [hf]
    cases hr : rankNat x y with
    | eq => exact absurd hr this
    | lt => rfl
    | gt => rfl

theorem rankInt_eq_iff (x y : Int) : (rankInt x y == .eq) = (x == y) := by
  by_cases h : x = y
  · subst h; simp [rankInt]
  · have : rankInt x y ≠ .eq := by
      unfold rankInt
      by_cases h1 : x < y
      · simp [h1]
      · have h2 : y < x := by omega
        simp [h1, h2]
    have hf : (x == y) = false := by simpa using h
    rw [hf]
    cases hr : rankInt x y with
    | eq => exact absurd hr this
    | lt => rfl
    | gt => rfl

theorem rankBool_eq_iff (x y : Bool) : (rankBool x y == .eq) = (x == y) := by
  cases x <;> cases y <;> rfl

theorem rankBytes_eq_iff : ∀ x y : List Nat, (rankBytes x y == .eq) = (x == y)
  | [], [] => rfl
  | [], _ :: _ => rfl
  | _ :: _, [] => rfl
  | a :: as, b :: bs => by
    simp only [rankBytes]
    have ih := rankBytes_eq_iff as bs
    have hn := rankNat_eq_iff a b
    cases h : rankNat a b with
    | eq =>
      rw [h] at hn
      have hab : a = b := by simpa using hn.symm
      subst hab
      simp only [ih]
      simp
    | lt =>
      rw [h] at hn
      have hab : (a == b) = false := by rw [← hn]; rfl
      have : ((a :: as) == (b :: bs)) = false := by
        show (a == b && as == bs) = false
        rw [hab]; rfl
      rw [this]; rfl
    | gt =>
      rw [h] at hn
      have hab : (a == b) = false := by rw [← hn]; rfl
      have : ((a :: as) == (b :: bs)) = false := by
        show (a == b && as == bs) = false
        rw [hab]; rfl
      rw [this]; rfl

theorem lexRank_eq_length {α : Type} (c : α → α → Rank) : ∀ xs ys : List α, lexRank c xs ys = .eq → xs.length = ys.length
  | [], [], _ => rfl
  | [], _ :: _, h => by simp [lexRank] at h
  | _ :: _, [], h => by simp [lexRank] at h
  | x :: xs, y :: ys, h => by
    simp only [lexRank] at h
    cases hc : c x y <;> rw [hc] at h <;> simp at h
    simp [lexRank_eq_length c xs ys h]

theorem encList_length (xs : List Val) : (encList xs).length = xs.length := by
  rw [encList_eq_map]; simp

mutual
theorem cmp_sound (max : Nat) : ∀ (f d : Nat) (a b : Val) (v : Bool), inU a = true → inU b = true →
    cmp max f d a b = .ok v → v = (cmpT (enc a) (enc b) == .eq)
  | 0, _, _, _, _, _, _, h => by simp [cmp] at h
  | f+1, d, a, b, v, ha, hb, h => by
    cases hua : isUndef a with
    | true =>
      cases a <;> simp [isUndef] at hua
      cases hub : isUndef b with
      | true =>
        cases b <;> simp [isUndef] at hub
        simp [cmp] at h; subst h; simp [enc, cmpT, rankNat, lexRank]
      | false =>
        rw [cmpT_undef_left b hub]
        cases b <;> simp [isUndef] at hub <;> simp [cmp] at h <;> subst h <;> rfl
    | false =>
      cases hub : isUndef b with
      | true =>
        cases b <;> simp [isUndef] at hub
        rw [cmpT_undef_right a hua]
        cases a <;> simp [isUndef] at hua <;> simp [cmp] at h <;> subst h <;> rfl
      | false =>
        by_cases ht : a.tcode = b.tcode
        · cases a with
          | undef => simp [isUndef] at hua
          | cpx z => simp [inU] at ha
          | gomap c n e => simp [inU] at ha
          | bool x =>
            cases b <;> simp [Val.tcode] at ht
            case bool y => simp [cmp, Val.tcode] at h; subst h; simp only [enc, cmpT, rankNat_lawful.refl, ← rankBool_lex, rankBool_eq_iff]
            case arr c n xs => cases c <;> simp [Val.tcode] at ht
            case gomap c n e => simp [inU] at hb
            case coll k xs => cases k <;> simp [Val.tcode] at ht
          | byte x =>
            cases b <;> simp [Val.tcode] at ht
            case byte y => simp [cmp, Val.tcode] at h; subst h; simp only [enc, cmpT, rankNat_lawful.refl, lexRank_single, rankNat_cast, rankNat_eq_iff]
            case arr c n xs => cases c <;> simp [Val.tcode] at ht
            case gomap c n e => simp [inU] at hb
            case coll k xs => cases k <;> simp [Val.tcode] at ht
          | uns x =>
            cases b <;> simp [Val.tcode] at ht
            case uns y => simp [cmp, Val.tcode] at h; subst h; simp only [enc, cmpT, rankNat_lawful.refl, lexRank_single, rankNat_cast, rankNat_eq_iff]
            case arr c n xs => cases c <;> simp [Val.tcode] at ht
            case gomap c n e => simp [inU] at hb
            case coll k xs => cases k <;> simp [Val.tcode] at ht
          | int x =>
            cases b <;> simp [Val.tcode] at ht
            case int y => simp [cmp, Val.tcode] at h; subst h; simp only [enc, cmpT, rankNat_lawful.refl, lexRank_single, rankInt_eq_iff]
            case arr c n xs => cases c <;> simp [Val.tcode] at ht
            case gomap c n e => simp [inU] at hb
            case coll k xs => cases k <;> simp [Val.tcode] at ht
          | rune x =>
            cases b <;> simp [Val.tcode] at ht
            case rune y => simp [cmp, Val.tcode] at h; subst h; simp only [enc, cmpT, rankNat_lawful.refl, lexRank_single, rankInt_eq_iff]
            case arr c n xs => cases c <;> simp [Val.tcode] at ht
            case gomap c n e => simp [inU] at hb
            case coll k xs => cases k <;> simp [Val.tcode] at ht
          | flt x =>
            cases b <;> simp [Val.tcode] at ht
            case flt y =>
              simp [cmp, Val.tcode] at h; subst h
              cases x <;> cases y <;> simp [enc, cmpT, rankNat, lexRank, rankFl, rankInt]
              rename_i p q
              by_cases h1 : p < q <;> by_cases h2 : q < p <;> simp [h1, h2]
            case arr c n xs => cases c <;> simp [Val.tcode] at ht
            case gomap c n e => simp [inU] at hb
            case coll k xs => cases k <;> simp [Val.tcode] at ht
          | str x =>
            cases b <;> simp [Val.tcode] at ht
            case str y => simp [cmp, Val.tcode] at h; subst h; simp only [enc, cmpT, rankNat_lawful.refl, ← rankBytes_lex, rankBytes_eq_iff]
            case arr c n xs => cases c <;> simp [Val.tcode] at ht
            case gomap c n e => simp [inU] at hb
            case coll k xs => cases k <;> simp [Val.tcode] at ht
          | assoc k1 v1 =>
            cases b <;> simp [Val.tcode] at ht
            case assoc k2 v2 =>
              simp only [inU, Bool.and_eq_true] at ha hb
              simp only [cmp, Val.tcode, ne_eq, not_true_eq_false, if_false] at h
              simp only [enc, cmpT, rankNat_lawful.refl, cmpTs]
              cases hk : cmp max f d k1 k2 with
              | ok vk =>
                have e := cmp_sound max f d k1 k2 vk ha.1 hb.1 hk
                rw [hk] at h
                cases vk with
                | true =>
                  simp only at h
                  have e2 := cmp_sound max f d v1 v2 v ha.2 hb.2 h
                  have : cmpT (enc k1) (enc k2) = .eq := by simpa using e.symm
                  rw [this, e2]
                  cases cmpT (enc v1) (enc v2) <;> rfl
                | false =>
                  simp only at h; cases h
                  have : cmpT (enc k1) (enc k2) ≠ .eq := by
                    intro hh; rw [hh] at e; simp at e
                  cases hc : cmpT (enc k1) (enc k2) <;> simp_all
              | depth => rw [hk] at h; cases h
              | hang => rw [hk] at h; cases h
            case arr c n xs => cases c <;> simp [Val.tcode] at ht
            case gomap c n e => simp [inU] at hb
            case coll k xs => cases k <;> simp [Val.tcode] at ht
          | coll k1 xs =>
            cases b with
            | coll k2 ys =>
              have hk : k1 = k2 := by cases k1 <;> cases k2 <;> simp [Val.tcode] at ht <;> rfl
              subst hk
              simp only [inU] at ha hb
              have h' : cmpArr max f d xs ys = .ok v := by
                cases k1 <;> simpa [cmp, Val.tcode] using h
              have := cmpArr_sound max f d xs ys v ha hb h'
              simp [enc, cmpT, rankNat_lawful.refl, this]
            | gomap c n e => simp [inU] at hb
            | arr c n ys => cases c <;> cases k1 <;> simp [Val.tcode] at ht
            | undef => simp [isUndef] at hub
            | _ => cases k1 <;> simp [Val.tcode] at ht
          | arr c1 n1 xs =>
            cases b with
            | arr c2 n2 ys =>
              have hc : c1 = c2 := by cases c1 <;> cases c2 <;> simp [Val.tcode] at ht <;> rfl
              subst hc
              simp only [inU] at ha hb
              have hcode : (Val.arr c1 n1 xs).tcode = (Val.arr c1 n2 ys).tcode := by cases c1 <;> rfl
              simp only [cmp, hcode, ne_eq, not_true_eq_false, if_false] at h
              cases n1 <;> cases n2 <;> simp only [if_true, if_false, Bool.false_eq_true] at h
              · have := cmpArr_sound max f d xs ys v ha hb h
                simp [enc, cmpT, rankNat_lawful.refl, this]
              · cases h; simp [enc, cmpT, rankNat_lawful.refl]
              · cases h; simp [enc, cmpT, rankNat_lawful.refl]
              · cases h; simp [enc, cmpT, rankNat_lawful.refl, lexRank]
            | gomap c n e => simp [inU] at hb
            | coll k ys => cases c1 <;> cases k <;> simp [Val.tcode] at ht
            | undef => simp [isUndef] at hub
            | _ => cases c1 <;> simp [Val.tcode] at ht
        · have e1 := enc_tag a hua
          have e2 := enc_tag b hub
          have hne : (enc a).tag ≠ (enc b).tag := by rw [e1, e2]; omega
          have hr : rankNat a.tcode b.tcode ≠ .eq := by
            unfold rankNat; by_cases h1 : a.tcode < b.tcode <;> by_cases h2 : b.tcode < a.tcode <;> simp [h1, h2]; omega
          rw [cmpT_of_tag_ne _ _ hne, e1, e2, rankNat_succ]
          have hv : v = false := by
            cases a <;> cases b <;> simp [isUndef] at hua hub <;> simp [cmp, ht] at h <;> first | exact h.symm | exact h
          subst hv
          cases hc : rankNat a.tcode b.tcode <;> simp_all
theorem cmpArr_sound (max : Nat) : ∀ (f d : Nat) (xs ys : List Val) (v : Bool), inUList xs = true → inUList ys = true →
    cmpArr max f d xs ys = .ok v → v = (cmpTs (encList xs) (encList ys) == .eq)
  | 0, _, _, _, _, _, _, h => by simp [cmpArr] at h
  | f+1, d, xs, ys, v, ha, hb, h => by
    simp only [cmpArr] at h
    split at h
    · cases h
    · split at h
      · rename_i hlen
        cases h
        have : cmpTs (encList xs) (encList ys) ≠ .eq := by
          intro hh
          rw [cmpTs_eq_lex] at hh
          have := lexRank_eq_length cmpT _ _ hh
          rw [encList_length, encList_length] at this
          exact hlen this
        cases hc : cmpTs (encList xs) (encList ys) <;> simp_all
      · rename_i hlen
        exact cmpList_sound max f d xs ys v ha hb h (by simpa using hlen)
theorem cmpList_sound (max : Nat) : ∀ (f d : Nat) (xs ys : List Val) (v : Bool), inUList xs = true → inUList ys = true →
    cmpList max f d xs ys = .ok v → xs.length = ys.length → v = (cmpTs (encList xs) (encList ys) == .eq)
  | 0, _, _, _, _, _, _, h, _ => by simp [cmpList] at h
  | f+1, d, [], [], v, _, _, h, _ => by simp [cmpList] at h; subst h; simp [encList, cmpTs]
  | f+1, d, [], _ :: _, v, _, _, h, hl => by simp at hl
  | f+1, d, _ :: _, [], v, _, _, h, hl => by simp at hl
  | f+1, d, x :: xs, y :: ys, v, ha, hb, h, hl => by
    simp only [inUList, Bool.and_eq_true] at ha hb
    simp only [cmpList] at h
    simp only [encList, cmpTs]
    cases hk : cmp max f (d+1) x y with
    | ok vk =>
      have e := cmp_sound max f (d+1) x y vk ha.1 hb.1 hk
      rw [hk] at h
      cases vk with
      | true =>
        simp only at h
        have e2 := cmpList_sound max f d xs ys v ha.2 hb.2 h (by simpa using hl)
        have : cmpT (enc x) (enc y) = .eq := by simpa using e.symm
        rw [this, e2]
      | false =>
        simp only at h; cases h
        cases hc : cmpT (enc x) (enc y) <;> simp_all
    | depth => rw [hk] at h; cases h
    | hang => rw [hk] at h; cases h
end

end Coll
end CM
