/-
  C06, termination half for **Split** – same statements as for Fork (Props/C06Term.lean), for
  every input stream, fan-out n ≥ 1, capacity ≥ 1 and interleaving of the feeder, the helper
  goroutine (round-robin iterator over the outputs) and the n readers:
  `C06_split_step_decreases`, `C06_split_run_bounded`, `C06_split_no_deadlock`,
  `C06_split_terminates` (every maximal run is finite and ends with the helper at
  `group.Done()`, every output closed and drained, reader k holding `splitSpec n k input`).
-/
import CollectionModel.Props.C06Term
import CollectionModel.Props.C06Split
namespace CM
open CM.Pipes

variable {α : Type}

def hpotS (n : Nat) : HS α → Nat
  | .recv => n + 1
  | .send _ => n + 1 + 2
  | .close k => n - k
  | .done => 0

def splitPot (n : Nat) (s : SS α) : Nat :=
  4 * s.rest.length + 3 * s.inq.length + hpotS n s.h + sumTo n (fun k => (s.buf k).length)
    + (if s.inClosed then 0 else 1) + sumTo n (fun k => if s.readerDone k then 0 else 1)

/-- **every atomic step does one unit of the remaining work** (the iterator points at an output) -/
theorem C06_split_step_decreases (n cap : Nat) (s t : SS α) (ht : s.turn < n) (h : SStep n cap s t) :
    splitPot n t < splitPot n s := by
  cases h with
  | feed v r h1 h2 h3 =>
    simp only [splitPot, h1, h3, List.length_cons, List.length_append, List.length_nil]; omega
  | feedClose h1 h3 => simp only [splitPot, h3]; simp
  | hRecv v q h1 h2 => simp only [splitPot, h1, h2, hpotS, List.length_cons]; omega
  | hRecvClosed h1 h2 h3 => simp only [splitPot, h1, hpotS]; omega
  | hSend v h1 h2 h3 =>
    have hs := sumTo_upd n (fun j => (s.buf j).length) (fun j => (upd s.buf s.turn (s.buf s.turn ++ [v]) j).length) s.turn ht
      (fun j hj => by simp [upd, hj])
    simp only [upd_same, List.length_append, List.length_cons, List.length_nil] at hs
    simp only [splitPot, h1, hpotS]; omega
  | hClose k h1 hk =>
    simp only [splitPot, h1]
    by_cases hk1 : k + 1 < n
    · simp only [hk1, if_true, hpotS]; omega
    · simp only [hk1, if_false, hpotS]; omega
  | read k v b hk h1 h2 =>
    have hs := sumTo_upd n (fun j => (s.buf j).length) (fun j => (upd s.buf k b j).length) k hk
      (fun j hj => by simp [upd, hj])
    simp only [upd_same, h1, List.length_cons] at hs
    simp only [splitPot]; omega
  | readClosed k hk h1 h2 h3 =>
    have hs := sumTo_upd n (fun j => if s.readerDone j then 0 else 1) (fun j => if upd s.readerDone k true j then 0 else 1) k hk
      (fun j hj => by simp [upd, hj])
    simp only [upd_same, h3] at hs
    simp only [splitPot]
    simp at hs
    omega

inductive SRun (n cap : Nat) : SS α → Nat → SS α → Prop
  | zero (s) : SRun n cap s 0 s
  | succ {s t u m} : SStep n cap s t → SRun n cap t m u → SRun n cap s (m + 1) u

theorem sreach_of_run (n cap : Nat) (s0 : SS α) : ∀ (m : Nat) (s u : SS α), SReach n cap s0 s → SRun n cap s m u → SReach n cap s0 u
  | 0, s, u, hr, h => by cases h; exact hr
  | m+1, s, u, hr, h => by
    cases h with
    | succ hs hrun => exact sreach_of_run n cap s0 m _ u (SReach.step hr hs) hrun

/-- **no infinite run** from a reachable state -/
theorem C06_split_run_bounded (input : List α) (n cap : Nat) (hn : 1 ≤ n) : ∀ (m : Nat) (s u : SS α),
    SReach n cap (initSS input) s → SRun n cap s m u → m + splitPot n u ≤ splitPot n s
  | 0, s, u, _, h => by cases h; omega
  | m+1, s, u, hr, h => by
    cases h with
    | succ hs hrun =>
      have ht : s.turn < n := by rw [(C06_split_inv input n cap (by omega) s hr).turn]; exact Nat.mod_lt _ (by omega)
      have := C06_split_run_bounded input n cap hn m _ u (SReach.step hr hs) hrun
      have := C06_split_step_decreases n cap _ _ ht hs
      omega

structure SplitProg (n : Nat) (s : SS α) : Prop where
  closeLt : ∀ k, s.h = .close k → k < n
  closedBelow : ∀ j, s.h = .close j → ∀ k, k < j → s.oclosed k = true
  closedAll : s.h = .done → ∀ k, k < n → s.oclosed k = true
  doneClosed : ∀ k, s.readerDone k = true → s.oclosed k = true
  doneEmpty : ∀ k, s.readerDone k = true → s.buf k = []

theorem split_prog_init (input : List α) (n : Nat) : SplitProg n (initSS input) := by
  refine ⟨?_, ?_, ?_, ?_, ?_⟩ <;> intros <;> simp_all [initSS]

theorem split_prog_step (n cap : Nat) (hn : 1 ≤ n) (s t : SS α) (hp : SplitProg n s) (hs : SStep n cap s t) : SplitProg n t := by
  cases hs with
  | feed v r h1 h2 h3 => exact ⟨hp.closeLt, hp.closedBelow, hp.closedAll, hp.doneClosed, hp.doneEmpty⟩
  | feedClose h1 h3 => exact ⟨hp.closeLt, hp.closedBelow, hp.closedAll, hp.doneClosed, hp.doneEmpty⟩
  | hRecv v q h1 h2 =>
    refine ⟨?_, ?_, ?_, hp.doneClosed, hp.doneEmpty⟩
    · intro k e; simp at e
    · intro j e; simp at e
    · intro e; simp at e
  | hRecvClosed h1 h2 h3 =>
    refine ⟨?_, ?_, ?_, hp.doneClosed, hp.doneEmpty⟩
    · intro k e; simp at e; omega
    · intro j e k hk; simp at e; omega
    · intro e; simp at e
  | hSend v h1 h2 h3 =>
    refine ⟨?_, ?_, ?_, hp.doneClosed, ?_⟩
    · intro k e; simp at e
    · intro j e; simp at e
    · intro e; simp at e
    · intro k' e
      have hne : k' ≠ s.turn := by
        intro ek; subst ek
        have := hp.doneClosed _ e; rw [h3] at this; cases this
      simp only [upd, hne, if_false]; exact hp.doneEmpty k' e
  | hClose k h1 hk =>
    refine ⟨?_, ?_, ?_, ?_, hp.doneEmpty⟩
    · intro k' e; simp only at e; split at e <;> simp at e; omega
    · intro j e k' hk'
      simp only at e; split at e <;> simp at e
      subst e
      by_cases hkk : k' = k
      · subst hkk; simp [upd]
      · simp only [upd, hkk, if_false]; exact hp.closedBelow k h1 k' (by omega)
    · intro e k' hk'
      simp only at e; split at e <;> simp at e
      by_cases hkk : k' = k
      · subst hkk; simp [upd]
      · simp only [upd, hkk, if_false]; exact hp.closedBelow k h1 k' (by omega)
    · intro k' e
      by_cases hkk : k' = k
      · subst hkk; simp [upd]
      · simp only [upd, hkk, if_false]; exact hp.doneClosed k' e
  | read k v b hk h1 h2 =>
    refine ⟨hp.closeLt, hp.closedBelow, hp.closedAll, hp.doneClosed, ?_⟩
    intro k' e
    have hne : k' ≠ k := by intro ek; subst ek; rw [h2] at e; cases e
    simp only [upd, hne, if_false]; exact hp.doneEmpty k' e
  | readClosed k hk h1 h2 h3 =>
    refine ⟨hp.closeLt, hp.closedBelow, hp.closedAll, ?_, ?_⟩
    · intro k' e
      by_cases hkk : k' = k
      · subst hkk; exact h2
      · simp only [upd, hkk, if_false] at e; exact hp.doneClosed k' e
    · intro k' e
      by_cases hkk : k' = k
      · subst hkk; exact h1
      · simp only [upd, hkk, if_false] at e; exact hp.doneEmpty k' e

theorem split_prog_reach (input : List α) (n cap : Nat) (hn : 1 ≤ n) (s : SS α) (h : SReach n cap (initSS input) s) : SplitProg n s := by
  induction h with
  | init => exact split_prog_init input n
  | step _ hs ih => exact split_prog_step n cap hn _ _ ih hs

def SplitFinal (n : Nat) (s : SS α) : Prop :=
  s.h = .done ∧ ∀ k, k < n → s.oclosed k = true ∧ s.buf k = [] ∧ s.readerDone k = true

/-- **nobody waits for ever** -/
theorem C06_split_no_deadlock (input : List α) (n cap : Nat) (hn : 1 ≤ n) (hcap : 1 ≤ cap) (s : SS α)
    (hr : SReach n cap (initSS input) s) : SplitFinal n s ∨ ∃ t, SStep n cap s t := by
  have inv := C06_split_inv input n cap (by omega) s hr
  have hp := split_prog_reach input n cap hn s hr
  have reader : ∀ k, k < n → s.readerDone k = false → (s.buf k ≠ [] ∨ s.oclosed k = true) → ∃ t, SStep n cap s t := by
    intro k hk hd hb
    cases hbk : s.buf k with
    | nil =>
      rcases hb with hb | hb
      · exact absurd hbk hb
      · exact ⟨_, SStep.readClosed s k hk hbk hb hd⟩
    | cons v b => exact ⟨_, SStep.read s k v b hk hbk hd⟩
  cases hh : s.h with
  | recv =>
    right
    cases hq : s.inq with
    | cons v q => exact ⟨_, SStep.hRecv s v q hh hq⟩
    | nil =>
      cases hc : s.inClosed with
      | true => exact ⟨_, SStep.hRecvClosed s hh hq hc⟩
      | false =>
        cases hrest : s.rest with
        | nil => exact ⟨_, SStep.feedClose s hrest hc⟩
        | cons v r => exact ⟨_, SStep.feed s v r hrest (by rw [hq]; simp; omega) hc⟩
  | send v =>
    right
    have hk : s.turn < n := by rw [inv.turn]; exact Nat.mod_lt _ (by omega)
    have hnc : s.oclosed s.turn = false := by
      cases hc : s.oclosed s.turn with
      | false => rfl
      | true =>
        rcases inv.noLate _ hc with ⟨j, hj, _⟩ | hd
        · rw [hh] at hj; cases hj
        · rw [hh] at hd; cases hd
    by_cases hfull : (s.buf s.turn).length < cap
    · exact ⟨_, SStep.hSend s v hh hfull hnc⟩
    · have hne : s.buf s.turn ≠ [] := by intro e; rw [e] at hfull; simp at hfull; omega
      have hnd : s.readerDone s.turn = false := by
        cases hd : s.readerDone s.turn with
        | false => rfl
        | true => have := hp.doneClosed _ hd; rw [hnc] at this; cases this
      exact reader _ hk hnd (Or.inl hne)
  | close k => exact Or.inr ⟨_, SStep.hClose s k hh (hp.closeLt k hh)⟩
  | done =>
    by_cases hall : ∀ k, k < n → s.buf k = [] ∧ s.readerDone k = true
    · exact Or.inl ⟨hh, fun k hk => ⟨hp.closedAll hh k hk, (hall k hk).1, (hall k hk).2⟩⟩
    · right
      have : ∃ k, k < n ∧ ¬ (s.buf k = [] ∧ s.readerDone k = true) := by
        apply Classical.byContradiction
        intro hne
        apply hall
        intro k hk
        apply Classical.byContradiction
        intro hnk
        exact hne ⟨k, hk, hnk⟩
      obtain ⟨k, hk, hnk⟩ := this
      have hcl := hp.closedAll hh k hk
      cases hd : s.readerDone k with
      | false => exact reader k hk hd (Or.inr hcl)
      | true => exact absurd ⟨hp.doneEmpty k hd, hd⟩ hnk

theorem splitPot_init (input : List α) (n : Nat) : splitPot n (initSS input) = 4 * input.length + (2 * n + 2) := by
  simp only [splitPot, initSS, hpotS, List.length_nil, Bool.false_eq_true, if_false]
  rw [sumTo_const, sumTo_const]; omega

/-- **Split terminates** — for every input, fan-out ≥ 1, capacity ≥ 1 and every interleaving:
    no run is longer than 4·|input| + 2n + 2 steps, and a run that cannot be extended has reached
    the final state (helper at `group.Done()`, every output closed and drained, every reader has
    seen ok=false) in which reader k has read exactly the values at positions ≡ k (mod n). -/
theorem C06_split_terminates (input : List α) (n cap : Nat) (hn : 1 ≤ n) (hcap : 1 ≤ cap) (m : Nat) (u : SS α)
    (hrun : SRun n cap (initSS input) m u) :
    m ≤ 4 * input.length + (2 * n + 2) ∧
    ((¬ ∃ t, SStep n cap u t) → SplitFinal n u ∧ ∀ k, k < n → u.reads k = splitSpec n k 0 input) := by
  refine ⟨?_, fun hstuck => ?_⟩
  · have := C06_split_run_bounded input n cap hn m _ u SReach.init hrun
    rw [splitPot_init] at this; omega
  · have hr := sreach_of_run n cap (initSS input) m _ u SReach.init hrun
    rcases C06_split_no_deadlock input n cap hn hcap u hr with hf | hstep
    · exact ⟨hf, C06_split_final input n cap (by omega) u hr hf.1 (fun k hk => (hf.2 k hk).2.1)⟩
    · exact absurd hstep hstuck

end CM
