/-
  Exact behaviour of the parser's primitives on a known next token, and of every parse
  method on the token sequence of a sentence (completeness half of C11, token level).
-/
import CollectionModel.Lemmas.ParseTotal
import CollectionModel.Model.Cdcn.Sentence
namespace CM
namespace Cdcn

variable (env : Env)

/-- does the token satisfy `parseToken(tt, val)`? -/
def tokMatches (t : Token) (tt : TT) (val : Option String) : Bool :=
  t.tt == tt && (match val with | none => true | some v => t.value == v.toList.map ch)

/-- `getNext` on a stream whose first token is known and is not the error token -/
theorem getNext_head (s : PS) (h : WF env s) (t : Token) (rest : List Token) (hs : stream s = t :: rest) (hne : t.tt ≠ .error) :
    ∃ s', getNext env s = .ok t (some t) s' ∧ stream s' = rest ∧ s'.stack.length = s.stack.length - 1 ∧
      (∀ x ∈ s'.stack, x ∈ s.stack) := by
  have hg := getNext_spec env s h
  generalize hr : getNext env s = r at hg
  cases hg with
  | diag t' =>
    -- the diagnostic arises only for the error token
    exfalso
    unfold getNext at hr
    cases hst : s.stack with
    | cons x xs => rw [hst] at hr; simp at hr
    | nil =>
      rw [hst] at hr
      cases hre : s.rest with
      | nil => rw [hre] at hr; simp at hr
      | cons y ys =>
        rw [hre] at hr
        simp only at hr
        have : y = t := by simp [stream, hst, hre] at hs; exact hs.1
        subst this
        simp [hne] at hr
  | ok t' s' h1 h2 h3 h4 h5 =>
    have : t' = t ∧ stream s' = rest := by
      rw [hs] at h1; simp at h1; exact ⟨h1.1.symm, h1.2.symm⟩
    obtain ⟨rfl, hrest⟩ := this
    exact ⟨s', rfl, hrest, h2, fun x hx => by rw [h4] at hx; exact List.mem_of_mem_tail hx⟩

/-- the requested token is next: it is consumed -/
theorem parseToken_hit (hcap : 3 < env.stackSize) (tt : TT) (val : Option String) (s : PS) (h : WF env s) (t : Token)
    (rest : List Token) (hs : stream s = t :: rest) (hm : tokMatches t tt val = true) (hne : tt ≠ .error) (hneof : tt ≠ .eof) :
    ∃ s', parseToken env tt val s = .ok t.value (some t) s' ∧ stream s' = rest ∧ WF env s' ∧
      s'.stack.length = s.stack.length - 1 := by
  have htt : t.tt = tt := by simp only [tokMatches, Bool.and_eq_true, beq_iff_eq] at hm; exact hm.1
  obtain ⟨s', hg, hr, hk, hsub⟩ := getNext_head env s h t rest hs (by rw [htt]; exact hne)
  refine ⟨s', ?_, hr, ?_, hk⟩
  · unfold parseToken; rw [hg]
    cases val with
    | none => simp only [tokMatches, Bool.and_true] at hm; simp [hm]
    | some v => simp only [tokMatches] at hm; simp only [hm, if_true]
  · exact wf_after_token env s s' t h (by rw [hs, hr]) hk (by rw [htt]; exact hneof) hsub

/-- another token is next: it is put back, the stream is unchanged -/
theorem parseToken_miss (hcap : 3 < env.stackSize) (tt : TT) (val : Option String) (s : PS) (h : WF env s) (t : Token)
    (rest : List Token) (hs : stream s = t :: rest) (hm : tokMatches t tt val = false) (hne : t.tt ≠ .error) :
    ∃ s', parseToken env tt val s = .no (some t) s' ∧ stream s' = stream s ∧ WF env s' ∧
      s'.stack.length = max s.stack.length 1 := by
  obtain ⟨s1, hg, hr, hk, hsub⟩ := getNext_head env s h t rest hs hne
  have hk2 : s1.stack.length ≤ 2 := by have := h.stk; omega
  refine ⟨{ s1 with stack := t :: s1.stack }, ?_, ?_, ?_, ?_⟩
  · unfold parseToken; rw [hg]
    cases val with
    | none =>
      simp only [tokMatches, Bool.and_true] at hm
      simp only [hm, Bool.and_true, Bool.false_eq_true, if_false]
      rw [putBack_ok env hcap t s1 _ (by omega)]
    | some v =>
      simp only [tokMatches] at hm
      simp only [hm, Bool.false_eq_true, if_false]
      rw [putBack_ok env hcap t s1 _ (by omega)]
  · rw [hs, ← hr]; simp [stream]
  · exact wf_push env s t (stream s1) h (by rw [hs, hr]) s1 rfl hne (fun x hx => h.noErr x (hsub x hx)) hk2
  · simp only [List.length_cons, hk]; have := h.stk; omega


def litKinds : List TT := [TT.boolean, TT.complex, TT.float, TT.hexadecimal, TT.integer, TT.nil, TT.rune, TT.string]

theorem isLiteralKind_iff (tt : TT) : isLiteralKind tt = true ↔ tt ∈ litKinds := by
  cases tt <;> simp [isLiteralKind, litKinds]

/-- the kinds are tried in order; the next token is of none of the kinds still to be tried -/
theorem intrinsic_go_miss (hcap : 3 < env.stackSize) (t : Token) (rest : List Token) (hne : t.tt ≠ .error) :
    ∀ (kinds : List TT) (cur : PS) (tok0 : Option Token), WF env cur → stream cur = t :: rest → t.tt ∉ kinds →
      ∃ s', parseIntrinsic.go env kinds cur tok0 = .no (if kinds = [] then tok0 else some t) s' ∧ stream s' = t :: rest ∧ WF env s' ∧
        s'.stack.length = (if kinds = [] then cur.stack.length else max cur.stack.length 1)
  | [], cur, tok0, hw, hs, _ => ⟨cur, by simp [parseIntrinsic.go], hs, hw, by simp⟩
  | tt :: more, cur, tok0, hw, hs, hnot => by
    have hmiss : tokMatches t tt none = false := by
      simp only [tokMatches, Bool.and_true, beq_eq_false_iff_ne]
      intro he; exact hnot (by simp [he])
    obtain ⟨s1, hp, hs1, hw1, hk1⟩ := parseToken_miss env hcap tt none cur hw t rest hs hmiss hne
    obtain ⟨s2, hg, hs2, hw2, hk2⟩ := intrinsic_go_miss hcap t rest hne more s1 (some t) hw1 (by rw [hs1, hs])
      (fun hm => hnot (by simp [hm]))
    refine ⟨s2, ?_, hs2, hw2, ?_⟩
    · simp only [parseIntrinsic.go, hp]
      rw [hg]; by_cases hm : more = [] <;> simp [hm]
    · rw [hk2]; by_cases hm : more = [] <;> simp [hm, hk1]

/-- the next token is a literal the conversion accepts: it is consumed and converted -/
theorem intrinsic_go_hit (hcap : 3 < env.stackSize) (t : Token) (rest : List Token) (v : Val) (hc : env.conv t = some v) :
    ∀ (kinds : List TT) (cur : PS) (tok0 : Option Token), WF env cur → stream cur = t :: rest → t.tt ∈ kinds →
      (∀ k ∈ kinds, k ≠ .error ∧ k ≠ .eof) →
      ∃ s', parseIntrinsic.go env kinds cur tok0 = .ok v (some t) s' ∧ stream s' = rest ∧ WF env s' ∧
        s'.stack.length = cur.stack.length - 1
  | [], _, _, _, _, hin, _ => by simp at hin
  | tt :: more, cur, tok0, hw, hs, hin, hk => by
    by_cases he : t.tt = tt
    · have hmatch : tokMatches t tt none = true := by simp [tokMatches, he]
      obtain ⟨s1, hp, hs1, hw1, hk1⟩ := parseToken_hit env hcap tt none cur hw t rest hs hmatch (hk tt (by simp)).1 (hk tt (by simp)).2
      exact ⟨s1, by simp [parseIntrinsic.go, hp, hc], hs1, hw1, hk1⟩
    · have hmiss : tokMatches t tt none = false := by
        simp only [tokMatches, Bool.and_true, beq_eq_false_iff_ne]; exact he
      have hne : t.tt ≠ .error := by
        intro h'
        rcases List.mem_cons.mp hin with h1 | h1
        · exact he h1
        · exact (hk t.tt (by simp [h1])).1 h'
      obtain ⟨s1, hp, hs1, hw1, hk1⟩ := parseToken_miss env hcap tt none cur hw t rest hs hmiss hne
      have hin' : t.tt ∈ more := by
        rcases List.mem_cons.mp hin with h1 | h1
        · exact absurd h1 he
        · exact h1
      obtain ⟨s2, hg, hs2, hw2, hk2⟩ := intrinsic_go_hit hcap t rest v hc more s1 (some t) hw1 (by rw [hs1, hs]) hin'
        (fun k hk' => hk k (by simp [hk']))
      exact ⟨s2, by simp only [parseIntrinsic.go, hp]; exact hg, hs2, hw2, by omega⟩

theorem litKinds_ok : ∀ k ∈ litKinds, k ≠ TT.error ∧ k ≠ TT.eof := by
  intro k hk; simp [litKinds] at hk
  rcases hk with h | h | h | h | h | h | h | h <;> subst h <;> exact ⟨by decide, by decide⟩

theorem parseIntrinsic_hit (hcap : 3 < env.stackSize) (s : PS) (h : WF env s) (t : Token) (rest : List Token) (v : Val)
    (hs : stream s = t :: rest) (hl : isLiteralKind t.tt = true) (hc : env.conv t = some v) :
    ∃ s', parseIntrinsic env s = .ok v (some t) s' ∧ stream s' = rest ∧ WF env s' ∧ s'.stack.length = s.stack.length - 1 := by
  unfold parseIntrinsic
  exact intrinsic_go_hit env hcap t rest v hc litKinds s none h hs ((isLiteralKind_iff _).mp hl) litKinds_ok

theorem parseIntrinsic_miss (hcap : 3 < env.stackSize) (s : PS) (h : WF env s) (t : Token) (rest : List Token)
    (hs : stream s = t :: rest) (hl : isLiteralKind t.tt = false) (hne : t.tt ≠ .error) :
    ∃ s', parseIntrinsic env s = .no (some t) s' ∧ stream s' = stream s ∧ WF env s' ∧ s'.stack.length = max s.stack.length 1 := by
  unfold parseIntrinsic
  have hnot : t.tt ∉ litKinds := by
    intro hm; rw [← isLiteralKind_iff] at hm; rw [hm] at hl; cases hl
  obtain ⟨s', hg, hs', hw', hk'⟩ := intrinsic_go_miss env hcap t rest hne litKinds s none h hs hnot
  refine ⟨s', ?_, by rw [hs', hs], hw', ?_⟩
  · simpa [litKinds] using hg
  · simpa [litKinds] using hk'


/-- a method returned the value `a` having consumed exactly the expected tokens -/
def Done {α : Type} (r : PR α) (a : α) (rest : List Token) : Prop :=
  ∃ tok s', r = .ok a tok s' ∧ stream s' = rest ∧ WF env s' ∧ TokOk env tok

/-- a method reported `ok = false` and restored the stream -/
def Refused {α : Type} (r : PR α) (s : PS) (d : Nat) : Prop :=
  ∃ tok s', r = .no tok s' ∧ stream s' = stream s ∧ WF env s' ∧ s'.stack.length ≤ max s.stack.length d ∧ TokOk env tok

theorem tokOk_of_mem (s : PS) (h : WF env s) (t : Token) (hm : t ∈ stream s) : TokOk env (some t) :=
  ⟨t, rfl, h.lines t hm⟩

theorem delim_not_literal (t : Token) (str : String) (h : isDelim t str = true) : isLiteralKind t.tt = false ∧ t.tt ≠ .error := by
  simp only [isDelim, Bool.and_eq_true, beq_iff_eq] at h
  rw [h.1]; exact ⟨rfl, by decide⟩

theorem eol_not_literal (t : Token) (h : isEol t = true) : isLiteralKind t.tt = false ∧ t.tt ≠ .error := by
  simp only [isEol, beq_iff_eq] at h
  rw [h]; exact ⟨rfl, by decide⟩

theorem literal_ne_error (t : Token) (h : isLiteralKind t.tt = true) : t.tt ≠ .error := by
  intro he; rw [he] at h; simp [isLiteralKind] at h

/-- `parseValue` on a token that cannot start a value: refused, stream restored -/
theorem parseValue_refuse (hcap : 3 < env.stackSize) (f : Nat) (s : PS) (h : WF env s) (t : Token) (rest : List Token)
    (hs : stream s = t :: rest) (hl : isLiteralKind t.tt = false) (hb : isDelim t "[" = false) (hne : t.tt ≠ .error) :
    Refused env (parseValue env (f + 3) s) s 1 := by
  obtain ⟨s1, hi, hs1, hw1, hk1⟩ := parseIntrinsic_miss env hcap s h t rest hs hl hne
  have hmiss : tokMatches t TT.delimiter (some "[") = false := by
    simp only [isDelim] at hb; simpa [tokMatches] using hb
  obtain ⟨s2, hp, hs2, hw2, hk2⟩ := parseToken_miss env hcap TT.delimiter (some "[") s1 hw1 t rest (by rw [hs1, hs]) hmiss hne
  refine ⟨some t, s2, ?_, by rw [hs2, hs1], hw2, by omega, tokOk_of_mem env s h t (by rw [hs]; simp)⟩
  simp only [parseValue, hi, parseCollection, parseSequence, hp]

/-- `parseAssociation` on a token that is not a literal: refused -/
theorem parseAssociation_refuse1 (hcap : 3 < env.stackSize) (f : Nat) (s : PS) (h : WF env s) (t : Token) (rest : List Token)
    (hs : stream s = t :: rest) (hl : isLiteralKind t.tt = false) (hne : t.tt ≠ .error) :
    Refused env (parseAssociation env (f + 1) s) s 1 := by
  obtain ⟨s1, hi, hs1, hw1, hk1⟩ := parseIntrinsic_miss env hcap s h t rest hs hl hne
  exact ⟨some t, s1, by simp only [parseAssociation, hi], hs1, hw1, by omega, tokOk_of_mem env s h t (by rw [hs]; simp)⟩

/-- `parseAssociation` on a literal that is not followed by a colon: the literal is put back -/
theorem parseAssociation_refuse2 (hcap : 3 < env.stackSize) (f : Nat) (s : PS) (h : WF env s) (t u : Token) (rest : List Token)
    (v : Val) (hs : stream s = t :: u :: rest) (hl : isLiteralKind t.tt = true) (hc : env.conv t = some v)
    (hu : isDelim u ":" = false) (hne : u.tt ≠ .error) :
    Refused env (parseAssociation env (f + 1) s) s 2 := by
  obtain ⟨s1, hi, hs1, hw1, hk0⟩ := parseIntrinsic_hit env hcap s h t (u :: rest) v hs hl hc
  have hmiss : tokMatches u TT.delimiter (some ":") = false := by
    simp only [isDelim] at hu; simpa [tokMatches] using hu
  obtain ⟨s2, hp, hs2, hw2, hk2⟩ := parseToken_miss env hcap TT.delimiter (some ":") s1 hw1 u rest hs1 hmiss hne
  have hk1 : s1.stack.length ≤ 2 := by have := h.stk; omega
  have hk3 : s2.stack.length ≤ 2 := by omega
  refine ⟨some t, { s2 with stack := t :: s2.stack }, ?_, ?_, ?_, ?_, tokOk_of_mem env s h t (by rw [hs]; simp)⟩
  · simp only [parseAssociation, hi, hp]
    rw [putBack_ok env hcap t s2 _ (by omega)]
  · rw [hs, ← hs1, ← hs2]; simp [stream]
  · exact wf_push env s t (stream s1) h (by rw [hs, hs1]) s2 hs2 (literal_ne_error t hl) hw2.noErr hk3
  · simp only [List.length_cons]; omega


theorem SValue.head_spec (v : SValue) (hg : v.Good) :
    (∃ t, v = .lit t ∧ isLiteralKind t.tt = true) ∨ (∃ t ts, v.toks = t :: ts ∧ isDelim t "[" = true) := by
  cases v with
  | lit t => exact Or.inl ⟨t, rfl, by simpa [SValue.Good] using hg⟩
  | coll lb items rb lp ty rp =>
    simp only [SValue.Good] at hg
    exact Or.inr ⟨lb, items.toks ++ [rb, lp, ty, rp], by simp [SValue.toks], hg.1⟩

theorem stream_nonempty_fuel {off f : Nat} {s : PS} (hw : WF env s) (hf : Fuel off f s) : 8 + off ≤ f := by
  obtain ⟨pre, e, he, _, _⟩ := hw.sentinel
  unfold Fuel at hf; rw [he] at hf; simp at hf; omega

/-- `parseAssociations` on a stream that starts with a token that is neither a literal, a colon
    nor an end of line (a bracket): refused -/
theorem parseAssociations_refuse_nonlit (hcap : 3 < env.stackSize) (f : Nat) (s : PS) (h : WF env s) (t : Token)
    (rest : List Token) (hs : stream s = t :: rest) (hl : isLiteralKind t.tt = false) (hc : isDelim t ":" = false)
    (he : isEol t = false) (hne : t.tt ≠ .error) : Refused env (parseAssociations env (f + 3) s) s 1 := by
  have hm1 : tokMatches t TT.delimiter (some ":") = false := by
    simp only [isDelim] at hc; simpa [tokMatches] using hc
  obtain ⟨s1, hp1, hs1, hw1, hk1⟩ := parseToken_miss env hcap TT.delimiter (some ":") s h t rest hs hm1 hne
  obtain ⟨tok2, s2, hp2, hs2, hw2, hk2, ht2⟩ := parseAssociation_refuse1 env hcap f s1 hw1 t rest (by rw [hs1, hs]) hl hne
  have hm3 : tokMatches t TT.eol none = false := by
    simp only [isEol] at he; simpa [tokMatches] using he
  obtain ⟨s3, hp3, hs3, hw3, hk3⟩ := parseToken_miss env hcap TT.eol none s2 hw2 t rest (by rw [hs2, hs1, hs]) hm3 hne
  refine ⟨some t, s3, ?_, by rw [hs3, hs2, hs1], hw3, by omega, tokOk_of_mem env s h t (by rw [hs]; simp)⟩
  simp only [parseAssociations, hp1, parseInlineAssociations, hp2, parseMultilineAssociations, hp3]

/-- ... that starts with a literal not followed by a colon (the first of a list of values) -/
theorem parseAssociations_refuse_lit (hcap : 3 < env.stackSize) (f : Nat) (s : PS) (h : WF env s) (t u : Token)
    (rest : List Token) (v : Val) (hs : stream s = t :: u :: rest) (hl : isLiteralKind t.tt = true) (hcv : env.conv t = some v)
    (hu : isDelim u ":" = false) (hne : u.tt ≠ .error) : Refused env (parseAssociations env (f + 3) s) s 2 := by
  have htne := literal_ne_error t hl
  have hm1 : tokMatches t TT.delimiter (some ":") = false := by
    have : (t.tt == TT.delimiter) = false := by
      cases htt : t.tt <;> simp_all [isLiteralKind]
    simp [tokMatches, this]
  obtain ⟨s1, hp1, hs1, hw1, hk1⟩ := parseToken_miss env hcap TT.delimiter (some ":") s h t (u :: rest) hs hm1 htne
  obtain ⟨tok2, s2, hp2, hs2, hw2, hk2, ht2⟩ := parseAssociation_refuse2 env hcap f s1 hw1 t u rest v (by rw [hs1, hs]) hl hcv hu hne
  have hm3 : tokMatches t TT.eol none = false := by
    have : (t.tt == TT.eol) = false := by
      cases htt : t.tt <;> simp_all [isLiteralKind]
    simp [tokMatches, this]
  obtain ⟨s3, hp3, hs3, hw3, hk3⟩ := parseToken_miss env hcap TT.eol none s2 hw2 t (u :: rest) (by rw [hs2, hs1, hs]) hm3 htne
  refine ⟨some t, s3, ?_, by rw [hs3, hs2, hs1], hw3, by omega, tokOk_of_mem env s h t (by rw [hs]; simp)⟩
  simp only [parseAssociations, hp1, parseInlineAssociations, hp2, parseMultilineAssociations, hp3]


/-- the common part of the two refusals behind an end of line: the associations alternatives
    fail and the end of line is put back -/
theorem parseAssociations_refuse_eol (hcap : 3 < env.stackSize) (f : Nat) (s : PS) (h : WF env s) (e : Token)
    (rest : List Token) (hs : stream s = e :: rest) (he : isEol e = true)
    (hassoc : ∀ s3, WF env s3 → stream s3 = rest → Refused env (parseAssociation env (f + 1) s3) s3 2) :
    Refused env (parseAssociations env (f + 3) s) s 3 := by
  obtain ⟨hel, hene⟩ := eol_not_literal e he
  have hett : e.tt = .eol := by simpa [isEol] using he
  have hm1 : tokMatches e TT.delimiter (some ":") = false := by simp [tokMatches, hett]
  obtain ⟨s1, hp1, hs1, hw1, hk1⟩ := parseToken_miss env hcap TT.delimiter (some ":") s h e rest hs hm1 hene
  obtain ⟨tok2, s2, hp2, hs2, hw2, hk2, ht2⟩ := parseAssociation_refuse1 env hcap f s1 hw1 e rest (by rw [hs1, hs]) hel hene
  have hm3 : tokMatches e TT.eol none = true := by simp [tokMatches, hett]
  obtain ⟨s3, hp3, hs3, hw3, hk3⟩ := parseToken_hit env hcap TT.eol none s2 hw2 e rest (by rw [hs2, hs1, hs]) hm3 (by decide) (by decide)
  obtain ⟨tok4, s4, hp4, hs4, hw4, hk4, ht4⟩ := hassoc s3 hw3 hs3
  have hk5 : s4.stack.length ≤ 2 := by have := hw2.stk; omega
  refine ⟨tok4, { s4 with stack := e :: s4.stack }, ?_, ?_, ?_, ?_, ht4⟩
  · simp only [parseAssociations, hp1, parseInlineAssociations, hp2, parseMultilineAssociations, hp3, hp4]
    rw [putBack_ok env hcap e s4 _ (by omega)]
  · rw [hs, ← hs3, ← hs4]; simp [stream]
  · exact wf_push env s e rest h hs s4 (by rw [hs4, hs3]) hene hw4.noErr hk5
  · simp only [List.length_cons]; omega

end Cdcn
end CM
