import Driver.SeqDrv
import Driver.SmallDrv
import Driver.SortDrv
import Driver.SetDrv
import Driver.AssocDrv
import Driver.CollDrv
import Driver.CdcnDrv
import Driver.QDrv
import Driver.FacadeDrv
import Driver.HeapDrv
import Driver.IndepDrv
open Lean Drv

def handle (line : String) : String :=
  match Json.parse line with
  | .error e => verdict false true "bad-json" e
  | .ok j =>
    match str j "k" with
    | "seq" => seqLine j
    | "stack" => stackLine j
    | "iter" => iterLine j
    | "sort" => sortLine j
    | "set" => setLine j
    | "map" => mapLine j
    | "cat" => catLine j
    | "coll" => collLine j
    | "coll3" => coll3Line j
    | "collcyc" => collcycLine j
    | "cdcn" => cdcnLine j
    | "rt" => rtLine j
    | "rtseq" => rtseqLine j
    | "rtcyc" => rtcycLine j
    | "qtrace" => qtraceLine j
    | "qctor" => qctorLine j
    | "pipe" => pipeLine j
    | "stress" => stressLine j
    | "facade" => facadeLine j
    | "heap" => heapLine j
    | "registry" => registryLine j
    | "indep" => indepLine j
    | "qmeta" => verdict true true "meta" ""
    | k => verdict false true "bad-kind" k

partial def loop (h : IO.FS.Stream) (out : IO.FS.Stream) : IO Unit := do
  let line ← h.getLine
  if line.isEmpty then return ()
  let l := line.trimAscii.toString
  if !l.isEmpty then out.putStrLn (handle l)
  loop h out

def main : IO Unit := do
  let out ← IO.getStdout
  loop (← IO.getStdin) out
  out.flush
